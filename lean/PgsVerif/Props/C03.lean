import PgsVerif.Props.C01
import PgsVerif.Proofs.HydrateSpec
import PgsVerif.Proofs.OwnersNodup
import PgsVerif.Model.AstSem2
/-!
# C03 — every type reference resolves to the declared entity with the right shape

`hydrate` resolves each reference through the index *as it is at that moment* (ast.go: field types
after the file's messages, methods while services are registered, extensions after all files).
The theorems say that, on every valid request, what it produced is the declarative graph:
each field / extension type is `specType` — classified by the table (label, type, "the referenced
message is a map entry") into exactly one of scalar / enum / embed / repeated / map — and every enum or
message it refers to, directly, as repeated element or as map key / value, every method input /
output and every extendee is `declaredAs w name kind`: THE declaration of the request bearing that
fully-qualified name, in whichever file it is declared.
-/
namespace Pgs.AST

theorem specFTypes_eq (w : World) : specFTypes w 0 w.files = (allFields w).map (fun x => (x.1, specType w x.2)) := by
  unfold specFTypes allFields
  rw [List.map_flatten, List.map_map]
  congr 1
  apply List.map_congr_left
  intro q _
  obtain ⟨k, f⟩ := q
  simp only [Function.comp, Nat.zero_add]

theorem specFilesMio_eq (w : World) : specFilesMio w 0 w.files = specMio w := by
  unfold specFilesMio specMio specSvcMio
  congr 1
  apply List.map_congr_left
  intro q _
  simp only [Nat.zero_add]

/-- **C03 (resolution)**: on a valid request the build succeeds and the types of all fields and
    extensions, the inputs / outputs of all methods and the extendees of all extensions are the
    declarative ones. -/
theorem C03_graph (w : World) (hv : Valid w) : ∃ g, hydrate w = .ok g ∧
    g.ftypes = (allFields w ++ allExts 0 w.files).map (fun x => (x.1, specType w x.2)) ∧
    g.mio = specMio w ∧
    g.extendees = (allExts 0 w.files).map (fun x => (x.1, declaredAs w x.2.extendee .msg)) := by
  obtain ⟨g, hg, hs⟩ := C01_no_failure w hv
  obtain ⟨_, t, o, e⟩ := hydrate_spec w hv.keysNodup g hg (fun d hd => by rw [hs] at hd; exact List.mem_reverse.mp hd)
  refine ⟨g, hg, ?_, ?_, e⟩
  · rw [t, specFTypes_eq, List.map_append]
  · rw [o, specFilesMio_eq]

/-- **C03 (classification)**: the declarative type falls in exactly the class the table gives. -/
theorem C03_shape (w : World) (r : Ref) (f : FieldD) : (typeRec r f (specType w f)).shape = specShape w f := by
  unfold specType specShape
  by_cases h3 : f.label = 3
  · simp only [h3, if_true]
    by_cases h14 : f.type = 14
    · simp [h14, typeRec]
    · by_cases h11 : f.type = 11
      · by_cases hm : isMapEntryFqn w f.typeName = true
        · simp only [h14, h11, hm, if_true, if_false, decide_true, Bool.and_self]
          have h1114 : ¬ ((11 : Nat) = 14) := by decide
          simp only [h1114, if_false]
          split
          · split <;> rfl
          · rfl
        · simp [h14, h11, hm, typeRec]
      · simp [h14, h11, typeRec]
  · simp only [h3, if_false]
    by_cases h14 : f.type = 14
    · simp [h14, typeRec]
    · by_cases h11 : f.type = 11
      · simp [h11, typeRec]
      · simp [h14, h11, typeRec]

/-- the five classes are exhaustive and exclusive: the table has one answer -/
theorem C03_shape_one_of (w : World) (f : FieldD) :
    specShape w f ∈ ["scalar", "enum", "embed", "repeated", "map"] := by
  unfold specShape
  by_cases h3 : f.label = 3 <;> by_cases h14 : f.type = 14 <;> by_cases h11 : f.type = 11 <;>
    cases isMapEntryFqn w f.typeName <;> simp [h3, h14, h11]

/-- **C03 (target identity)**: wherever a reference names a declaration of the right kind, the
    entity it resolved to is that declaration (also across files: `declared w` spans the request). -/
theorem C03_target_declared (w : World) (hv : Valid w) (k : String) (kind : Kind)
    (h : Resolves (declared w) k kind) : ∃ d ∈ declared w, d.key = k ∧ d.kind = kind ∧ declaredAs w k kind = d.ref := by
  obtain ⟨d, hd, rfl, rfl⟩ := h
  exact ⟨d, hd, rfl, rfl, declaredAs_of_mem w hv.keysNodup d hd⟩

/-- every extension's extendee and type name resolve (validity), hence by the two theorems above to
    declared entities -/
theorem C03_ext_resolves (w : World) (hv : Valid w) : ∀ x ∈ allExts 0 w.files,
    ∃ d ∈ declared w, d.key = x.2.extendee ∧ d.kind = .msg ∧ declaredAs w x.2.extendee .msg = d.ref := by
  intro x hx
  exact C03_target_declared w hv _ _ (hv.exts x hx).2

/-- the model observation never reports failure on a valid request -/
theorem C03_not_failed (w : World) (hv : Valid w) : (c03Model w).failed = false := by
  obtain ⟨g, hg, _⟩ := C01_no_failure w hv
  simp [c03Model, hg]

/-- **C03 (the type of THAT field)**: fields and extensions have pairwise distinct references
    (`owners_nodup`), so asking the built graph for the type of a field / extension by reference
    answers the declarative type of that very field / extension. -/
theorem C03_type_of (w : World) (hv : Valid w) (g : Graph) (hg : hydrate w = .ok g) :
    ∀ x ∈ allFields w ++ allExts 0 w.files, g.ftype? x.1 = some (specType w x.2) := by
  obtain ⟨g', hg', ht, _, _⟩ := C03_graph w hv
  rw [hg] at hg'; cases hg'
  intro x hx
  unfold Graph.ftype?
  rw [ht, find_of_nodup (specType w) _ (owners_nodup w) x hx]
  rfl

end Pgs.AST

/-! ### non-vacuity on the example request of Props/C01 -/
namespace Pgs.AST
example : specType exW ⟨"m", 2, 3, 11, ".p.M.MEntry", none, false, ""⟩ = .map (.scalar 9) (.embed 11 ⟨0, [4, 0]⟩) := by decide
example : specType exW ⟨"x", 1, 1, 11, ".p.M", none, false, ""⟩ = .embed ⟨0, [4, 0]⟩ := by decide
example : specMio exW = [(⟨1, [6, 0, 2, 0]⟩, ⟨0, [4, 0]⟩, ⟨1, [4, 0]⟩)] := by decide
example : ∃ g, hydrate exW = .ok g ∧ g.mio = specMio exW := by
  obtain ⟨g, h, _, m, _⟩ := C03_graph exW exW_valid
  exact ⟨g, h, m⟩
end Pgs.AST

/-! ### the extendee lists the extension back -/
namespace Pgs.AST

/-- **C03 (applied extensions)**: on a valid request the extensions a message lists are exactly the
    extensions of the request whose extendee names that message, in registration order. -/
theorem C03_applied (w : World) (hv : Valid w) (g : Graph) (hg : hydrate w = .ok g) (m : Ref) :
    (g.extendees.filter (·.2 == m)).map (·.1) =
      ((allExts 0 w.files).filter (fun x => declaredAs w x.2.extendee .msg == m)).map (·.1) := by
  obtain ⟨g', hg', _, _, he⟩ := C03_graph w hv
  rw [hg] at hg'; cases hg'
  rw [he, List.filter_map, List.map_map]
  rfl

end Pgs.AST
