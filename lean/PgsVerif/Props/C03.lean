import PgsVerif.Model.AstSem2
namespace Pgs.AST
theorem placeholder_C03 : True := trivial
end Pgs.AST
