import PgsVerif.Proofs.WalkTree
import PgsVerif.Generated.Code_acceptOrders
/-!
# Tie (translated code): the accept methods, statement by statement

The translator lists, for `accept` of package, file, message, enum and service, every statement of
the method as it is in the source now: the guard on a nil visitor, the visit with its guard
(`err != nil || v == nil`), and every loop over children with the visitor handed to them.  Here:

* the shape of every method is the one the model transcribes (`tie_accept_shape`): nil-visitor
  guard, visit, guard on error-or-nil, loops that all hand the *returned* visitor `v` on, return;
* the order of the children groups in the model's containment forest is *computed from* that table
  (`tie_fileKids`, `tie_msgKids`, `tie_enum_kids`, `tie_service_kids`).
-/
namespace Pgs.AST
open Pgs.GenCode

/-- the loops of an accept method: (children ranged over, visitor handed on) -/
def loopsOf (recv : String) : List (String × String) :=
  ((acceptOrders.lookup recv).getD []).filter fun (a, _) => a != "if" && a != "return"

/-- the guards of an accept method -/
def guardsOf (recv : String) : List String :=
  (((acceptOrders.lookup recv).getD []).filter fun (a, _) => a == "if").map (·.2)

theorem tie_accept_shape :
    guardsOf "pkg" = ["v == nil", "v,err = v.VisitPackage(p); err != nil || v == nil"] ∧
    guardsOf "file" = ["v == nil", "v,err = v.VisitFile(f); err != nil || v == nil"] ∧
    guardsOf "msg" = ["v == nil", "v,err = v.VisitMessage(m); err != nil || v == nil"] ∧
    guardsOf "enum" = ["v == nil", "v,err = v.VisitEnum(e); err != nil || v == nil"] ∧
    guardsOf "service" = ["v == nil", "v,err = v.VisitService(s); err != nil || v == nil"] ∧
    -- every loop hands on the visitor the visit returned, and the guards come before the loops
    (∀ recv ∈ ["pkg", "file", "msg", "enum", "service"],
      (loopsOf recv).all (·.2 == "v") = true ∧
      ((acceptOrders.lookup recv).getD []).map (·.1) =
        ["if", "if"] ++ (loopsOf recv).map (·.1) ++ ["return"]) := by decide

/-- which descriptor field each child list of a file / message holds (SourceCodeInfo numbering) -/
def fileTag : String → Option Nat
  | "enums" => some 5 | "msgs" => some 4 | "srvs" => some 6 | "defExts" => some 7 | _ => none
def msgTag : String → Option Nat
  | "enums" => some 4 | "msgs" => some 3 | "fields" => some 2 | "oneofs" => some 8 | "defExts" => some 6 | _ => none

def Forest.concat : List Forest → Forest
  | [] => .nil
  | [t] => t
  | t :: ts => t.append (Forest.concat ts)

def fileGroup (fi : Nat) (f : FileD) : Nat → Forest
  | 5 => enumsF fi [] 5 0 f.enums
  | 4 => msgsF fi [] 4 0 f.msgs
  | 6 => servicesF fi 0 f.services
  | 7 => leavesF (childRefs fi [] 7 f.exts.length)
  | _ => .nil

def msgGroup (fi : Nat) (here : List Nat) (h : MsgHead) (nested : Msgs) : Nat → Forest
  | 4 => enumsF fi here 4 0 h.enums
  | 3 => msgsF fi here 3 0 nested
  | 2 => leavesF (childRefs fi here 2 h.fields.length)
  | 8 => leavesF (childRefs fi here 8 h.oneofs.length)
  | 6 => leavesF (childRefs fi here 6 h.exts.length)
  | _ => .nil

theorem tie_file_order : (loopsOf "file").filterMap (fun x => fileTag x.1) = [5, 4, 6, 7] := by decide
theorem tie_msg_order : (loopsOf "msg").filterMap (fun x => msgTag x.1) = [4, 3, 2, 8, 6] := by decide
theorem tie_file_loops_known : (loopsOf "file").all (fun x => (fileTag x.1).isSome) = true := by decide
theorem tie_msg_loops_known : (loopsOf "msg").all (fun x => (msgTag x.1).isSome) = true := by decide
theorem tie_enum_kids : (loopsOf "enum").map (·.1) = ["vals"] := by decide
theorem tie_service_kids : (loopsOf "service").map (·.1) = ["methods"] := by decide
theorem tie_pkg_kids : (loopsOf "pkg").map (·.1) = ["Files()"] := by decide

/-- the contents of a file in the model's forest: the groups in the order of `file.accept`'s loops -/
theorem tie_fileKids (fi : Nat) (f : FileD) :
    fileKidsF fi f = Forest.concat (((loopsOf "file").filterMap (fun x => fileTag x.1)).map (fileGroup fi f)) := by
  rw [tie_file_order]; rfl

/-- the contents of a message: the groups in the order of `msg.accept`'s loops -/
theorem tie_msgKids (fi : Nat) (p : List Nat) (tag i : Nat) (h : MsgHead) (nested rest : Msgs) (hm : h.mapEntry = false) :
    msgsF fi p tag i (.cons h nested rest) =
      .node ⟨fi, p ++ [tag, i]⟩
        (Forest.concat (((loopsOf "msg").filterMap (fun x => msgTag x.1)).map (msgGroup fi (p ++ [tag, i]) h nested)))
        (msgsF fi p tag (i+1) rest) := by
  rw [tie_msg_order]; simp [msgsF, hm, Forest.concat, msgGroup]

end Pgs.AST
