import PgsVerif.Model.Persist
/-!
# C12 — custom files land exactly where and how requested, never clobbering silently

`writeFile` over the finite-map file system; `specFile` is the declarative per-path rule
(first writer wins unless the artifact overwrites; the creator's permission bits; post-processed
content).  For **all** initial file systems, artifact lists and processor stacks on which the run
does not fail and no artifact path is a directory at the moment it is written (`noDirClash`:
file/directory conflicts are fail-stop on a real file system, C14's territory).
-/
namespace Pgs.Persist
open Pgs

/-- no custom artifact addresses a path that is a directory at that moment -/
def noDirClash (procs : List Proc) : FS → List Art → Bool
  | _, [] => true
  | fs, a :: as =>
    match a with
    | .custom name body perms ow tpl =>
      match render body tpl with
      | .error _ => true
      | .ok text =>
        match postProcess procs a.kind text with
        | .error _ => true
        | .ok c => !((fs.mkdirAll (FilePath.dir name)).isDir name) && noDirClash procs (writeFile fs name c ow perms) as
    | _ => noDirClash procs fs as

theorem file?_mkdirAll (fs : FS) (d p : Bytes) : (fs.mkdirAll d).file? p = fs.file? p := rfl

theorem find?_map_path (l : List FileEnt) (n : Bytes) (g : FileEnt → FileEnt) (hg : ∀ e, (g e).path = e.path) :
    (l.map g).find? (·.path == n) = (l.find? (·.path == n)).map g := by
  induction l with
  | nil => rfl
  | cons e l ih =>
    simp only [List.map_cons, List.find?_cons, hg]
    split <;> simp [ih]

/-- what a path holds after `write` -/
theorem file?_write (fs : FS) (q c : Bytes) (perms : Nat) (p : Bytes) :
    (fs.write q c perms).file? p =
      if norm p = norm q then
        (match fs.file? q with
         | some e => some { e with content := c }
         | none => some ⟨norm q, c, perms⟩)
      else fs.file? p := by
  unfold FS.write FS.file?
  by_cases hex : (fs.files.find? (·.path == norm q)).isSome = true
  · simp only [hex, if_true]
    rw [find?_map_path _ _ _ (by intro e; split <;> rfl)]
    by_cases hpq : norm p = norm q
    · simp only [hpq, if_true]
      cases hf : fs.files.find? (·.path == norm q) with
      | none => simp [hf] at hex
      | some e =>
        have := List.find?_some hf
        simp at this
        simp [this]
    · simp only [hpq, if_false]
      cases hf : fs.files.find? (·.path == norm p) with
      | none => rfl
      | some e =>
        have := List.find?_some hf
        simp at this
        have hne : ¬ e.path = norm q := by rw [this]; exact hpq
        simp [hne]
  · have hnone : fs.files.find? (·.path == norm q) = none := by
      cases hf : fs.files.find? (·.path == norm q) with
      | none => rfl
      | some e => simp [hf] at hex
    simp only [hex, Bool.false_eq_true, if_false, List.find?_append, hnone]
    by_cases hpq : norm p = norm q
    · simp [hpq, hnone]
    · have : ¬ norm q = norm p := fun e => hpq e.symm
      simp [hpq, this]

/-- what a path holds after `writeFile`, when the artifact's path is not a directory -/
theorem file?_writeFile (fs : FS) (name c : Bytes) (ow : Bool) (perms : Nat) (p : Bytes)
    (hd : (fs.mkdirAll (FilePath.dir name)).isDir name = false) :
    (writeFile fs name c ow perms).file? p =
      if norm p = norm name then
        (match fs.file? name with
         | some e => if ow then some { e with content := c } else some e
         | none => some ⟨norm name, c, perms⟩)
      else fs.file? p := by
  unfold writeFile
  have hex : (fs.mkdirAll (FilePath.dir name)).exists name = (fs.file? name).isSome := by
    simp [FS.exists, hd, file?_mkdirAll]
  simp only [hex]
  cases hf : fs.file? name with
  | none =>
    simp only [Option.isSome_none, Bool.false_eq_true, if_false]
    rw [file?_write, file?_mkdirAll, file?_mkdirAll, hf]
  | some e =>
    simp only [Option.isSome_some, if_true]
    cases ow with
    | true => simp only [if_true]; rw [file?_write, file?_mkdirAll, file?_mkdirAll, hf]
    | false =>
      simp only [Bool.false_eq_true, if_false, file?_mkdirAll]
      by_cases hpq : norm p = norm name
      · simp only [hpq, if_true]
        have : fs.file? p = fs.file? name := by simp [FS.file?, hpq]
        rw [this, hf]
      · simp [hpq]

/-- **C12 (file system)**: after a run that does not fail, every path holds exactly what the
    declarative rule says: pre-existing or earlier-written files are untouched unless an artifact
    overwrites (then only the content is replaced, the mode stays), a newly created file has the
    requested permission bits and the post-processed content. -/
theorem C12_files (procs : List Proc) (arts : List Art) : ∀ (st st' : State),
    persistFrom procs st arts = .ok st' → noDirClash procs st.fs arts = true →
    ∀ p, st'.fs.file? p = specFile procs (st.fs.file? p) (norm p) arts := by
  induction arts with
  | nil => intro st st' h _ p; simp [persistFrom] at h; subst h; rfl
  | cons a as ih =>
    intro st st' h hnd p
    simp only [persistFrom] at h
    cases hs : step procs st a with
    | error c => simp [hs] at h
    | ok st1 =>
      simp only [hs] at h
      cases a with
      | custom name body perms ow tpl =>
        cases hr : render body tpl with
        | error c => simp [step, bind, Except.bind, hr] at hs
        | ok text =>
          cases hp : postProcess procs (Art.custom name body perms ow tpl).kind text with
          | error c => simp [step, bind, Except.bind, hr, hp] at hs
          | ok c =>
            have hst1 : st1 = { st with fs := writeFile st.fs name c ow perms } := by
              simp [step, bind, Except.bind, hr, hp, pure, Except.pure] at hs
              exact hs.symm
            simp only [noDirClash, hr, hp, Bool.and_eq_true, Bool.not_eq_true'] at hnd
            obtain ⟨hd, hnd'⟩ := hnd
            have ih' := ih st1 st' h (by rw [hst1]; exact hnd') p
            rw [ih', hst1]
            simp only [specFile, hr, hp]
            rw [file?_writeFile st.fs name c ow perms p hd]
            by_cases hpq : norm name = norm p
            · have hpq' : norm p = norm name := hpq.symm
              have hsame : st.fs.file? p = st.fs.file? name := by simp only [FS.file?, hpq']
              rw [if_pos hpq', if_pos hpq, hsame]
              cases hf : st.fs.file? name with
              | none => simp only [hp]; rw [hpq]
              | some e => cases ow <;> simp only [hp, if_true, Bool.false_eq_true, if_false]
            · have hpq' : ¬ norm p = norm name := fun e => hpq e.symm
              rw [if_neg hpq', if_neg hpq]
      | file n b o t =>
        have hfs : st1.fs = st.fs := by
          simp only [step, bind, Except.bind] at hs
          repeat' split at hs
          all_goals first | (cases hs; done) | (simp [pure, Except.pure] at hs; rw [← hs])
        have := ih st1 st' h (by rw [hfs]; simpa [noDirClash] using hnd) p
        rw [this, hfs]; simp [specFile]
      | app n b t =>
        have hfs : st1.fs = st.fs := by
          simp only [step, bind, Except.bind] at hs
          repeat' split at hs
          all_goals first | (cases hs; done) | (simp [pure, Except.pure] at hs; rw [← hs])
        have := ih st1 st' h (by rw [hfs]; simpa [noDirClash] using hnd) p
        rw [this, hfs]; simp [specFile]
      | inj n i b t =>
        have hfs : st1.fs = st.fs := by
          simp only [step, bind, Except.bind] at hs
          repeat' split at hs
          all_goals first | (cases hs; done) | (simp [pure, Except.pure] at hs; rw [← hs])
        have := ih st1 st' h (by rw [hfs]; simpa [noDirClash] using hnd) p
        rw [this, hfs]; simp [specFile]
      | err msg =>
        have hfs : st1.fs = st.fs := by simp [step, pure, Except.pure] at hs; rw [← hs]
        have := ih st1 st' h (by rw [hfs]; simpa [noDirClash] using hnd) p
        rw [this, hfs]; simp [specFile]
      | unknown => simp [step] at hs

/-- the response does not depend on custom artifacts: a non-failing run produces the response of
    the same run with the custom artifacts removed -/
theorem C12_response (procs : List Proc) (arts : List Art) : ∀ (st st' : State),
    persistFrom procs st arts = .ok st' →
    ∃ st'', persistFrom procs st (arts.filter fun a => match a with | .custom .. => false | _ => true) = .ok st'' ∧
      st''.resp = st'.resp := by
  induction arts with
  | nil => intro st st' h; exact ⟨st, rfl, by simp [persistFrom] at h; rw [h]⟩
  | cons a as ih =>
    intro st st' h
    simp only [persistFrom] at h
    cases hs : step procs st a with
    | error c => simp [hs] at h
    | ok st1 =>
      simp only [hs] at h
      cases a with
      | custom name body perms ow tpl =>
        have hresp : st1.resp = st.resp := by
          simp only [step, bind, Except.bind] at hs
          repeat' split at hs
          all_goals first | (cases hs; done) | (simp [pure, Except.pure] at hs; rw [← hs])
        -- the remaining run only reads the response part of the state
        obtain ⟨st2, h2, h3⟩ := ih st1 st' h
        have key : ∀ (l : List Art) (s1 s2 r : State), s1.resp = s2.resp → (∀ a ∈ l, ∀ n b p o t, a ≠ Art.custom n b p o t) →
            persistFrom procs s1 l = .ok r → ∃ r', persistFrom procs s2 l = .ok r' ∧ r'.resp = r.resp := by
          intro l
          induction l with
          | nil => intro s1 s2 r he _ hr; simp [persistFrom] at hr; exact ⟨s2, rfl, by rw [← hr, he]⟩
          | cons x l ihl =>
            intro s1 s2 r he hnc hr
            simp only [persistFrom] at hr
            cases hx : step procs s1 x with
            | error c => simp [hx] at hr
            | ok t1 =>
              simp only [hx] at hr
              have hstep : ∃ t2, step procs s2 x = .ok t2 ∧ t2.resp = t1.resp := by
                cases x with
                | custom n b p o t => exact absurd rfl (hnc _ (List.mem_cons_self ..) n b p o t)
                | unknown => simp [step] at hx
                | err msg =>
                  simp [step, pure, Except.pure] at hx ⊢
                  rw [← hx, he]
                | file n b o t =>
                  simp only [step, bind, Except.bind, he] at hx ⊢
                  repeat' split at hx
                  all_goals first | (cases hx; done) | skip
                  all_goals simp_all [pure, Except.pure]
                  all_goals (rw [← hx])
                | app n b t =>
                  simp only [step, bind, Except.bind, he] at hx ⊢
                  repeat' split at hx
                  all_goals first | (cases hx; done) | skip
                  all_goals simp_all [pure, Except.pure]
                  all_goals (rw [← hx])
                | inj n i b t =>
                  simp only [step, bind, Except.bind, he] at hx ⊢
                  repeat' split at hx
                  all_goals first | (cases hx; done) | skip
                  all_goals simp_all [pure, Except.pure]
                  all_goals (rw [← hx])
              obtain ⟨t2, ht2, hresp2⟩ := hstep
              obtain ⟨r', hr', hrr⟩ := ihl t1 t2 r hresp2.symm (fun a ha => hnc a (List.mem_cons_of_mem _ ha)) hr
              exact ⟨r', by simp [persistFrom, ht2, hr'], hrr⟩
        have hnc : ∀ a ∈ as.filter (fun a => match a with | .custom .. => false | _ => true), ∀ n b p o t, a ≠ Art.custom n b p o t := by
          intro a ha n b p o t e
          subst e
          simp at ha
        obtain ⟨r', hr', hrr⟩ := key _ st1 st st2 hresp hnc h2
        refine ⟨r', ?_, by rw [hrr, h3]⟩
        simpa using hr'
      | file n b o t => obtain ⟨st2, h2, h3⟩ := ih st1 st' h; exact ⟨st2, by simp [persistFrom, hs, h2], h3⟩
      | app n b t => obtain ⟨st2, h2, h3⟩ := ih st1 st' h; exact ⟨st2, by simp [persistFrom, hs, h2], h3⟩
      | inj n i b t => obtain ⟨st2, h2, h3⟩ := ih st1 st' h; exact ⟨st2, by simp [persistFrom, hs, h2], h3⟩
      | err msg => obtain ⟨st2, h2, h3⟩ := ih st1 st' h; exact ⟨st2, by simp [persistFrom, hs, h2], h3⟩
      | unknown => simp [step] at hs

theorem write_dirs (fs : FS) (p c : Bytes) (perms : Nat) : (fs.write p c perms).dirs = fs.dirs := by
  unfold FS.write; simp only; split <;> rfl

/-- parents of a written file exist afterwards -/
theorem C12_parent_created (fs : FS) (name c : Bytes) (ow : Bool) (perms : Nat) :
    (writeFile fs name c ow perms).isDir (FilePath.dir name) = true := by
  have hm : (fs.mkdirAll (FilePath.dir name)).isDir (FilePath.dir name) = true := by
    unfold FS.mkdirAll FS.isDir
    simp only [List.contains_eq_mem, decide_eq_true_eq, List.mem_append]
    by_cases hin : norm (FilePath.dir name) ∈ fs.dirs
    · exact Or.inl hin
    · right
      rw [List.mem_eraseDups]
      simp [hin]
  unfold writeFile
  simp only
  split
  · split
    · simpa [FS.isDir, write_dirs] using hm
    · exact hm
  · simpa [FS.isDir, write_dirs] using hm

/-! ### non-vacuity -/
example : noDirClash [] ⟨[], []⟩ [.custom [100,47,97] ⟨[49], false⟩ 420 false false, .custom [100,47,97] ⟨[50], false⟩ 384 true false] = true := by decide

end Pgs.Persist
