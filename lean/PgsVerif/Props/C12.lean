import PgsVerif.Model.Persist
namespace Pgs.Persist
theorem placeholder_C12 : True := trivial
end Pgs.Persist
