import PgsVerif.Model.Persist
namespace Pgs.Persist
theorem placeholder_C10 : True := trivial
end Pgs.Persist
