import PgsVerif.Proofs.Persist
import PgsVerif.Props.C11
/-!
# C10 — the response means, to protoc, exactly what the artifacts said

`persist` transcribes `stdPersister.Persist` over the flat list of response chunks (index
arithmetic of `indexOfFile` / `tailOfFile` / `insertFile` / `insertAppend`); `meaning` is the
abstract semantics over entries (a file with its appends, or an injection); `interp` is protoc's
reading of a response.  For **all** artifact lists and **all** post-processor stacks.
-/
namespace Pgs.Persist
open Pgs

/-- the persister state represents the abstract meaning -/
structure Rel (st : State) (m : Meaning) : Prop where
  files : st.resp.files = flat m.entries
  error : st.resp.error = m.error
  wf : WF m.entries

theorem cleanOK_nonempty (name n : Bytes) (h : cleanOK name = .ok n) : n ≠ [] := by
  unfold cleanOK at h
  cases hc : C11.cleanName name with
  | rejected => rw [hc] at h; cases h
  | accepted c =>
    rw [hc] at h
    cases h
    obtain ⟨_, hall, _⟩ := C11.C11_accepted_normal name n hc
    intro e
    subst e
    simp [splitOn, C11.properSeg] at hall

theorem wf_append (es : List Entry) (e : Entry) (h : WF es) (he : e.name ≠ []) : WF (es ++ [e]) := by
  intro x hx
  rcases List.mem_append.mp hx with h1 | h1
  · exact h x h1
  · simp at h1; subst h1; exact he

theorem wf_replace (P Q : List Entry) (e e' : Entry) (h : WF (P ++ e :: Q)) (he : e'.name = e.name) : WF (P ++ e' :: Q) := by
  intro x hx
  rcases List.mem_append.mp hx with h1 | h1
  · exact h x (List.mem_append_left _ h1)
  · rcases List.mem_cons.mp h1 with rfl | h2
    · rw [he]; exact h e (by simp)
    · exact h x (by simp [h2])

/-- `insertFile` on a flat response -/
theorem insertFile_refines (es : List Entry) (hw : WF es) (n c : Bytes) (ow : Bool) (hn : n ≠ []) :
    let i := es.findIdx (isFileEntry n)
    insertFile (flat es) ⟨some n, none, c⟩ ow =
      flat (if ow && i < es.length then es.modify i (setContent c) else es ++ [.file n c []]) ∧
    WF (if ow && i < es.length then es.modify i (setContent c) else es ++ [.file n c []]) := by
  intro i
  by_cases how : ow = true
  · by_cases hlt : i < es.length
    · obtain ⟨P, c0, apps, Q, hes, hP, hlen⟩ := split_at_file n es hlt
      have hi : i = P.length := hlen.symm
      simp only [how, hlt, Bool.true_and, decide_true, if_true]
      subst hes
      rw [hi, modify_at_length]
      refine ⟨?_, wf_replace P Q _ _ hw rfl⟩
      unfold insertFile
      simp only [if_true, Option.getD_some]
      rw [indexOfFile_flat_some n c0 apps P Q hP]
      simp only [flat_append, flat_cons, chunks, setContent, List.cons_append]
      rw [List.set_append_right _ _ (by omega)]
      simp
    · simp only [how, hlt, Bool.true_and, decide_false, Bool.false_eq_true, if_false]
      refine ⟨?_, wf_append es _ hw (by simpa [Entry.name] using hn)⟩
      unfold insertFile
      simp only [if_true, Option.getD_some]
      rw [indexOfFile_flat_none n es hlt]
      simp [flat_append, flat_cons, chunks, flat_nil]
  · have how' : ow = false := by simpa using how
    simp only [how', Bool.false_and, Bool.false_eq_true, if_false]
    refine ⟨?_, wf_append es _ hw (by simpa [Entry.name] using hn)⟩
    unfold insertFile
    simp [flat_append, flat_cons, chunks, flat_nil]

theorem drop_len_succ {α} (A : List α) (x : α) (B : List α) : (A ++ x :: B).drop (A.length + 1) = B := by
  induction A with
  | nil => simp
  | cons a A ih => simpa using ih

theorem take_len_add {α} (A : List α) (x : α) (B C : List α) :
    (A ++ x :: (B ++ C)).take (A.length + B.length + 1) = A ++ x :: B := by
  induction A with
  | nil => simp
  | cons a A ih =>
    have : (a :: A).length + B.length + 1 = (A.length + B.length + 1) + 1 := by simp; omega
    rw [this]; simpa using ih

theorem drop_len_add {α} (A : List α) (x : α) (B C : List α) :
    (A ++ x :: (B ++ C)).drop (A.length + B.length + 1) = C := by
  induction A with
  | nil => simp
  | cons a A ih =>
    have : (a :: A).length + B.length + 1 = (A.length + B.length + 1) + 1 := by simp; omega
    rw [this]; simpa using ih

/-- `insertAppend` on a flat response -/
theorem insertAppend_refines (es : List Entry) (hw : WF es) (n c : Bytes) :
    let i := es.findIdx (isFileEntry n)
    (i < es.length → insertAppend (flat es) n ⟨none, none, c⟩ = .ok (flat (es.modify i (addApp c))) ∧
        WF (es.modify i (addApp c))) ∧
    (¬ i < es.length → insertAppend (flat es) n ⟨none, none, c⟩ = .error .appendMissing) := by
  intro i
  constructor
  · intro hlt
    obtain ⟨P, c0, apps, Q, hes, hP, hlen⟩ := split_at_file n es hlt
    have hi : i = P.length := hlen.symm
    subst hes
    have hwQ : WF Q := fun x hx => hw x (by simp [hx])
    rw [hi, modify_at_length]
    refine ⟨?_, wf_replace P Q _ _ hw rfl⟩
    unfold insertAppend tailOfFile
    rw [indexOfFile_flat_some n c0 apps P Q hP]
    simp only
    -- the data after the file chunk: its appends, then the blocks of Q
    have hshape : flat (P ++ Entry.file n c0 apps :: Q) =
        flat P ++ (⟨some n, none, c0⟩ : RF) :: (apps.map nameless ++ flat Q) := by
      simp [flat_append, flat_cons, chunks]
    rw [hshape, drop_len_succ, takeWhile_apps apps (flat Q) (takeWhile_flat Q hwQ)]
    simp only [List.length_map]
    have hl : (apps.map nameless).length = apps.length := by simp
    have e1 := take_len_add (flat P) (⟨some n, none, c0⟩ : RF) (apps.map nameless) (flat Q)
    have e2 := drop_len_add (flat P) (⟨some n, none, c0⟩ : RF) (apps.map nameless) (flat Q)
    rw [hl] at e1 e2
    rw [e1, e2]
    simp [flat_append, flat_cons, chunks, addApp, nameless]
  · intro hlt
    unfold insertAppend tailOfFile
    rw [indexOfFile_flat_none n es hlt]

/-- one artifact: the persister and the abstract semantics fail together (same cause) or step to
    related states -/
theorem step_refines (procs : List Proc) (st : State) (m : Meaning) (a : Art) (h : Rel st m) :
    (∃ c, step procs st a = .error c ∧ meanStep procs m a = .error c) ∨
    (∃ st' m', step procs st a = .ok st' ∧ meanStep procs m a = .ok m' ∧ Rel st' m') := by
  cases a with
  | file name body ow tpl =>
    cases hc : cleanOK name with
    | error c => left; exact ⟨c, by simp [step, bind, Except.bind, hc], by simp [meanStep, bind, Except.bind, hc]⟩
    | ok n =>
      cases hr : render body tpl with
      | error c => left; exact ⟨c, by simp [step, bind, Except.bind, hc, hr], by simp [meanStep, bind, Except.bind, hc, hr]⟩
      | ok text =>
        cases hp : postProcess procs (Art.file name body ow tpl).kind text with
        | error c => left; exact ⟨c, by simp [step, bind, Except.bind, hc, hr, hp], by simp [meanStep, bind, Except.bind, hc, hr, hp]⟩
        | ok c =>
          right
          obtain ⟨h1, h2⟩ := insertFile_refines m.entries h.wf n c ow (cleanOK_nonempty name n hc)
          by_cases hcond : (ow && decide (m.entries.findIdx (isFileEntry n) < m.entries.length)) = true
          · simp only [hcond, if_true] at h1 h2
            refine ⟨_, _, by (simp only [step, bind, Except.bind, hc, hr, hp, pure, Except.pure]) <;> rfl,
              by (simp only [meanStep, bind, Except.bind, hc, hr, hp, hcond, if_true, pure, Except.pure]) <;> rfl, ?_⟩
            exact ⟨by simp [h.files, h1], h.error, h2⟩
          · simp only [hcond] at h1 h2
            refine ⟨_, _, by (simp only [step, bind, Except.bind, hc, hr, hp, pure, Except.pure]) <;> rfl,
              by simp only [meanStep, bind, Except.bind, hc, hr, hp, hcond, pure, Except.pure]; rfl, ?_⟩
            exact ⟨by simp [h.files, h1], h.error, h2⟩
  | app name body tpl =>
    cases hc : cleanOK name with
    | error c => left; exact ⟨c, by simp [step, bind, Except.bind, hc], by simp [meanStep, bind, Except.bind, hc]⟩
    | ok n =>
      cases hr : render body tpl with
      | error c => left; exact ⟨c, by simp [step, bind, Except.bind, hc, hr], by simp [meanStep, bind, Except.bind, hc, hr]⟩
      | ok text =>
        cases hp : postProcess procs (Art.app name body tpl).kind text with
        | error c => left; exact ⟨c, by simp [step, bind, Except.bind, hc, hr, hp], by simp [meanStep, bind, Except.bind, hc, hr, hp]⟩
        | ok c =>
          obtain ⟨h1, h2⟩ := insertAppend_refines m.entries h.wf n c
          by_cases hlt : m.entries.findIdx (isFileEntry n) < m.entries.length
          · right
            obtain ⟨h3, h4⟩ := h1 hlt
            refine ⟨_, _, by (simp only [step, bind, Except.bind, hc, hr, hp, h.files, h3, pure, Except.pure]) <;> rfl,
              by (simp only [meanStep, bind, Except.bind, hc, hr, hp, hlt, if_true, pure, Except.pure]) <;> rfl, ?_⟩
            exact ⟨rfl, h.error, h4⟩
          · left
            exact ⟨_, by (simp only [step, bind, Except.bind, hc, hr, hp, h.files, h2 hlt]) <;> rfl,
              by (simp only [meanStep, bind, Except.bind, hc, hr, hp, hlt, if_false]) <;> rfl⟩
  | inj name ip body tpl =>
    cases hc : cleanOK name with
    | error c => left; exact ⟨c, by simp [step, bind, Except.bind, hc], by simp [meanStep, bind, Except.bind, hc]⟩
    | ok n =>
      cases hr : render body tpl with
      | error c => left; exact ⟨c, by simp [step, bind, Except.bind, hc, hr], by simp [meanStep, bind, Except.bind, hc, hr]⟩
      | ok text =>
        cases hp : postProcess procs (Art.inj name ip body tpl).kind text with
        | error c => left; exact ⟨c, by simp [step, bind, Except.bind, hc, hr, hp], by simp [meanStep, bind, Except.bind, hc, hr, hp]⟩
        | ok c =>
          right
          refine ⟨_, _, by (simp only [step, bind, Except.bind, hc, hr, hp, pure, Except.pure]) <;> rfl,
            by (simp only [meanStep, bind, Except.bind, hc, hr, hp, pure, Except.pure]) <;> rfl, ?_⟩
          refine ⟨?_, h.error, wf_append _ _ h.wf (by simpa [Entry.name] using cleanOK_nonempty name n hc)⟩
          simp [insertFile, h.files, flat_append, flat_cons, chunks, flat_nil]
  | custom name body perms ow tpl =>
    cases hr : render body tpl with
    | error c => left; exact ⟨c, by simp [step, bind, Except.bind, hr], by simp [meanStep, bind, Except.bind, hr]⟩
    | ok text =>
      cases hp : postProcess procs (Art.custom name body perms ow tpl).kind text with
      | error c => left; exact ⟨c, by simp [step, bind, Except.bind, hr, hp], by simp [meanStep, bind, Except.bind, hr, hp]⟩
      | ok c =>
        right
        refine ⟨{ st with fs := writeFile st.fs name c ow perms }, m,
          by (simp only [step, bind, Except.bind, hr, hp, pure, Except.pure]) <;> rfl,
          by (simp only [meanStep, bind, Except.bind, hr, hp, pure, Except.pure]) <;> rfl, ?_⟩
        exact ⟨h.files, h.error, h.wf⟩
  | err msg =>
    right
    refine ⟨{ st with resp := { st.resp with error := match st.resp.error with
                                                    | none => some msg
                                                    | some e => some (e ++ [59, 32] ++ msg) } },
            { m with error := match m.error with | none => some msg | some e => some (e ++ [59, 32] ++ msg) },
            by (simp only [step, pure, Except.pure]) <;> rfl, by (simp only [meanStep, pure, Except.pure]) <;> rfl, ?_⟩
    refine ⟨h.files, ?_, h.wf⟩
    simp [h.error]
  | unknown => left; exact ⟨_, rfl, rfl⟩

theorem persistFrom_refines (procs : List Proc) (arts : List Art) : ∀ (st : State) (m : Meaning), Rel st m →
    (∃ c, persistFrom procs st arts = .error c ∧ meaningFrom procs m arts = .error c) ∨
    (∃ st' m', persistFrom procs st arts = .ok st' ∧ meaningFrom procs m arts = .ok m' ∧ Rel st' m') := by
  induction arts with
  | nil => intro st m h; right; exact ⟨st, m, rfl, rfl, h⟩
  | cons a as ih =>
    intro st m h
    rcases step_refines procs st m a h with ⟨c, h1, h2⟩ | ⟨st', m', h1, h2, h3⟩
    · left; exact ⟨c, by simp [persistFrom, h1], by simp [meaningFrom, h2]⟩
    · simp only [persistFrom, meaningFrom, h1, h2]
      exact ih st' m' h3

/-- **C10**: for every artifact sequence and every post-processor stack, the persister fails
    exactly when the abstract semantics does (with the same cause); otherwise the response, read
    under protoc's rules (a nameless chunk continues the preceding entry; an injection never
    absorbs one), is exactly the list of entries the artifacts mean, with the same joined error. -/
theorem C10_refines (procs : List Proc) (fs0 : FS) (arts : List Art) :
    (∃ c, persist procs fs0 arts = .error c ∧ meaning procs arts = .error c) ∨
    (∃ st m, persist procs fs0 arts = .ok st ∧ meaning procs arts = .ok m ∧
        interp st.resp.files [] = some m.entries ∧ st.resp.error = m.error) := by
  have h0 : Rel ⟨⟨[], none⟩, fs0⟩ ⟨[], none⟩ := ⟨rfl, rfl, by intro e he; simp at he⟩
  rcases persistFrom_refines procs arts _ _ h0 with ⟨c, h1, h2⟩ | ⟨st, m, h1, h2, h3⟩
  · left; exact ⟨c, h1, h2⟩
  · right
    refine ⟨st, m, h1, h2, ?_, h3.error⟩
    rw [h3.files, interp_flat m.entries h3.wf []]; simp

/-- Φ_C10 holds of the model on every input. -/
theorem C10_judge (i : In) : judgeC10 i (model i) = none := by
  unfold judgeC10 model
  rcases C10_refines i.procs i.fs i.arts with ⟨c, h1, h2⟩ | ⟨st, m, h1, h2, h3, h4⟩
  · simp [h1, h2]
  · simp [h1, h2, h3, h4]

/-- Template artifacts behave exactly like their plain counterparts given the rendered text: with
    processors that do not distinguish the two kinds, a successfully rendering template file steps
    exactly like the plain file carrying that text. -/
theorem C10_templates (st : State) (name text : Bytes) (ow : Bool) :
    step [] st (.file name ⟨text, false⟩ ow true) = step [] st (.file name ⟨text, false⟩ ow false) := by
  simp [step, render, postProcess, bind, Except.bind]

/-- Post-processors are applied to precisely the artifacts they match, in registration order. -/
theorem C10_postprocess_order (p : Proc) (ps : List Proc) (k : Nat) (b : Bytes) (hp : p.fails = false) :
    postProcess (p :: ps) k b = if p.kinds.contains k then postProcess ps k (p.apply b) else postProcess ps k b := by
  simp [postProcess, hp]

/-! ### non-vacuity: file a, append, injection, overwrite -/
example :
    (persist [] ⟨[], []⟩ [.file [97] ⟨[49], false⟩ false false, .inj [97] [112] ⟨[50], false⟩ false,
                          .app [97] ⟨[51], false⟩ false, .file [97] ⟨[52], false⟩ true false]).toOption.map (·.resp.files)
      = some [⟨some [97], none, [52]⟩, ⟨none, none, [51]⟩, ⟨some [97], some [112], [50]⟩] := by decide

end Pgs.Persist
