import PgsVerif.Props.C04
/-!
# C04 — unused imports

"A file's unused imports are exactly its non-public direct imports that define no type referenced by
any field, method or extension declared in that file."

`unusedImports w g fi f` (Model/AstSem2) is the transcription of `File.UnusedImports`, computed from
the built graph `g`.  `specUnused w fi f` below says the same with every graph lookup replaced by the
declarative reading of the request (`specImports`, `specFieldFiles`, `declaredAs`), and
`C04_unused` proves them equal on every valid request; `C04_unused_mem` restates it as the
membership condition of the property.
-/
namespace Pgs.AST

/-- the ordinary (non-map-entry) messages of a file at any depth, with their references: the
    messages whose fields and extensions `UnusedImports` looks at (a map field stands for its entry) -/
def ordinaryOfFile (fi : Nat) (f : FileD) : List (Ref × MsgHead) :=
  (msgsWithRefs fi [] 4 0 f.msgs).filter (fun (r, _) => (allMsgRefs fi [] 4 0 f.msgs).contains r)

/-- what an extension references: its type and the message it extends -/
def specExtFiles (w : World) (fi : Nat) (x : FieldD) : List Nat :=
  specFieldFiles w fi x ++ [(declaredAs w x.extendee .msg).file]

/-- the files that define a type referenced by a field, method or extension declared in file `fi` -/
def specUsedFiles (w : World) (fi : Nat) (f : FileD) : List Nat :=
  ((ordinaryOfFile fi f).map fun (_, h) => ((idx h.fields).map fun q => specFieldFiles w fi q.2).flatten).flatten
  ++ ((idx f.services).map fun (_, s) => ((idx s.methods).map fun m =>
        let i := declaredAs w m.2.input .msg
        let o := declaredAs w m.2.output .msg
        (if i.file != fi then [i.file] else []) ++ (if o.file != fi && o.file != i.file then [o.file] else [])).flatten).flatten
  ++ (((idx f.exts).map fun q => specExtFiles w fi q.2)
        ++ ((ordinaryOfFile fi f).map fun (_, h) => (idx h.exts).map fun q => specExtFiles w fi q.2).flatten).flatten

/-- the declarative unused imports: non-public direct imports that define nothing used -/
def specUnused (w : World) (fi : Nat) (f : FileD) : List Nat :=
  ((idx (specImports w fi)).filterMap fun (i, d) => if f.publicDeps.contains i then none else some d).filter
    fun d => !(specUsedFiles w fi f).contains d

theorem childRefs_map {α β} (fi : Nat) (p : List Nat) (tag : Nat) (l : List α) (F : Ref → β) :
    (childRefs fi p tag l.length).map F = (idx l).map (fun q => F ⟨fi, p ++ [tag, q.1]⟩) := by
  unfold childRefs
  rw [← idx_map_fst l (fun k => (⟨fi, p ++ [tag, k]⟩ : Ref)), List.map_map]
  rfl

theorem allExts_append (n : Nat) (a b : List FileD) :
    allExts n (a ++ b) = allExts n a ++ allExts (n + a.length) b := by
  induction a generalizing n with
  | nil => simp [allExts]
  | cons f a ih =>
    simp only [List.cons_append, allExts, ih, List.append_assoc, List.length_cons]
    congr 3; omega

/-- the extensions of the `fi`-th file are extensions of the request -/
theorem extsOfFile_sub (w : World) (fi : Nat) (f : FileD) (hf : w.files[fi]? = some f) :
    ∀ x ∈ extsOfFile fi f, x ∈ allExts 0 w.files := by
  intro x hx
  obtain ⟨pre, post, e, hl⟩ := split_at_index _ _ _ hf
  rw [e, allExts_append]
  apply List.mem_append_right
  simp only [allExts, Nat.zero_add, hl]
  exact List.mem_append_left _ hx

/-- extensions declared in a listed message are listed extensions; the message lies in file `fi` -/
theorem msgs_exts_mem (fi : Nat) : ∀ (ms : Msgs) (p : List Nat) (tag i : Nat),
    ∀ x ∈ msgsWithRefs fi p tag i ms, x.1.file = fi ∧
      ∀ q ∈ idx x.2.exts, ((⟨fi, x.1.path ++ [6, q.1]⟩ : Ref), q.2) ∈ extsOfMsgs fi p tag i ms := by
  intro ms
  induction ms with
  | nil => intro p tag i x hx; simp [msgsWithRefs] at hx
  | cons h nested rest ih1 ih2 =>
    intro p tag i x hx
    simp only [msgsWithRefs, List.mem_cons, List.mem_append] at hx
    simp only [extsOfMsgs, List.mem_append, List.mem_map]
    rcases hx with (rfl | hx) | hx
    · exact ⟨rfl, fun q hq => .inl (.inr ⟨q, hq, rfl⟩)⟩
    · obtain ⟨a, b⟩ := ih1 _ _ _ x hx
      exact ⟨a, fun q hq => .inl (.inl (b q hq))⟩
    · obtain ⟨a, b⟩ := ih2 _ _ _ x hx
      exact ⟨a, fun q hq => .inr (b q hq)⟩

/-- what the model looks up for one extension of the request is its declarative reading -/
theorem ext_used (w : World) (hv : Valid w) (g : Graph) (hg : hydrate w = .ok g) :
    ∀ x ∈ allExts 0 w.files,
      (extImports g x.1 ++ (match g.extendees.find? (·.1 == x.1) with | some (_, m) => [m.file] | none => []))
        = specExtFiles w x.1.file x.2 := by
  intro x hx
  obtain ⟨g', hg', _, _, he⟩ := C03_graph w hv
  rw [hg] at hg'; cases hg'
  have hnd := (allExts_facts w.files 0).1
  have hfind := find_of_nodup (fun y : FieldD => declaredAs w y.extendee .msg) _ hnd x hx
  rw [he, hfind]
  unfold extImports specExtFiles
  rw [C04_field_files w hv g hg x (List.mem_append_right _ hx)]

theorem ordinary_sub (fi : Nat) (f : FileD) : ∀ x ∈ ordinaryOfFile fi f, x ∈ msgsWithRefs fi [] 4 0 f.msgs := by
  intro x hx
  exact (List.mem_filter.mp hx).1

theorem msgs_sub_all (w : World) (fi : Nat) (f : FileD) (hf : w.files[fi]? = some f) :
    ∀ x ∈ msgsWithRefs fi [] 4 0 f.msgs, x ∈ allMsgs w := by
  intro x hx
  simp only [allMsgs, List.mem_flatten, List.mem_map]
  exact ⟨_, ⟨(fi, f), idx_of_get _ _ _ hf, rfl⟩, hx⟩

/-- the imports of the fields of a message of the request, one by one (unsorted) -/
theorem msg_field_files (w : World) (hv : Valid w) (g : Graph) (hg : hydrate w = .ok g) :
    ∀ x ∈ allMsgs w, (msgFieldRefs x.1 x.2).map (fieldImports g) =
      (idx x.2.fields).map fun q => specFieldFiles w x.1.file q.2 := by
  intro x hx
  rw [msgFieldRefs_map]
  apply List.map_congr_left
  intro q hq
  simp only [allMsgs, List.mem_flatten, List.mem_map] at hx
  obtain ⟨l, ⟨⟨fi, f⟩, hf, rfl⟩, hx⟩ := hx
  obtain ⟨a, b⟩ := msgs_fields_mem' fi f.msgs [] 4 0 x hx
  have hm : ((⟨x.1.file, x.1.path ++ [2, q.1]⟩ : Ref), q.2) ∈ allFields w := by
    simp only [allFields, List.mem_flatten, List.mem_map]
    exact ⟨_, ⟨(fi, f), hf, rfl⟩, by rw [a]; exact b q hq⟩
  exact C04_field_files w hv g hg _ (List.mem_append_left _ hm)

/-- the transcription, with its local definitions spelled out -/
theorem unusedImports_unfold (w : World) (g : Graph) (fi : Nat) (f : FileD) : unusedImports w g fi f =
    ((idx (g.depsOf fi)).filterMap fun (i, d) => if f.publicDeps.contains i then none else some d).filter
      fun d => !(((ordinaryOfFile fi f).map fun (r, h) => ((msgFieldRefs r h).map (fieldImports g)).flatten).flatten
        ++ ((idx f.services).map fun (si, s) =>
              ((List.range s.methods.length).map fun mi => methodImports g ⟨fi, [6, si, 2, mi]⟩).flatten).flatten
        ++ ((childRefs fi [] 7 f.exts.length ++ ((ordinaryOfFile fi f).map fun (r, h) => childRefs fi r.path 6 h.exts.length).flatten).map
              fun x => extImports g x ++ (match g.extendees.find? (·.1 == x) with | some (_, m) => [m.file] | none => [])).flatten).contains d :=
  rfl

/-- **C04 (unused imports)**: on a valid request the unused imports computed from the built graph are
    the declarative ones. -/
theorem C04_unused (w : World) (hv : Valid w) (g : Graph) (hg : hydrate w = .ok g)
    (fi : Nat) (f : FileD) (hf : w.files[fi]? = some f) :
    unusedImports w g fi f = specUnused w fi f := by
  have hA : ((ordinaryOfFile fi f).map fun (r, h) => ((msgFieldRefs r h).map (fieldImports g)).flatten) =
      ((ordinaryOfFile fi f).map fun (_, h) => ((idx h.fields).map fun q => specFieldFiles w fi q.2).flatten) := by
    apply List.map_congr_left
    intro x hx
    have hm := ordinary_sub fi f x hx
    have hfile := (msgs_fields_mem' fi f.msgs [] 4 0 x hm).1
    have := msg_field_files w hv g hg x (msgs_sub_all w fi f hf x hm)
    rw [hfile] at this
    show ((msgFieldRefs x.1 x.2).map (fieldImports g)).flatten = _
    rw [this]
  have hB : ((idx f.services).map fun (si, s) =>
        ((List.range s.methods.length).map fun mi => methodImports g ⟨fi, [6, si, 2, mi]⟩).flatten) =
      ((idx f.services).map fun (_, s) => ((idx s.methods).map fun m =>
        let i := declaredAs w m.2.input .msg
        let o := declaredAs w m.2.output .msg
        (if i.file != fi then [i.file] else []) ++ (if o.file != fi && o.file != i.file then [o.file] else [])).flatten) := by
    apply List.map_congr_left
    intro x hx
    obtain ⟨si, s⟩ := x
    have hs := idx_mem _ _ _ hx
    show ((List.range s.methods.length).map fun mi => methodImports g ⟨fi, [6, si, 2, mi]⟩).flatten = _
    rw [C04_service_imports w hv g hg fi si f s hf hs]
  have hC : ((childRefs fi [] 7 f.exts.length ++ ((ordinaryOfFile fi f).map fun (r, h) => childRefs fi r.path 6 h.exts.length).flatten).map
        fun x => extImports g x ++ (match g.extendees.find? (·.1 == x) with | some (_, m) => [m.file] | none => [])) =
      ((idx f.exts).map fun q => specExtFiles w fi q.2)
        ++ ((ordinaryOfFile fi f).map fun (_, h) => (idx h.exts).map fun q => specExtFiles w fi q.2).flatten := by
    rw [List.map_append, childRefs_map fi [] 7 f.exts, List.map_flatten, List.map_map]
    congr 1
    · apply List.map_congr_left
      intro q hq
      have hin : ((⟨fi, [7, q.1]⟩ : Ref), q.2) ∈ allExts 0 w.files := by
        apply extsOfFile_sub w fi f hf
        unfold extsOfFile
        exact List.mem_append_left _ (List.mem_map.mpr ⟨q, hq, rfl⟩)
      exact ext_used w hv g hg _ hin
    · congr 1
      apply List.map_congr_left
      intro x hx
      have hm := ordinary_sub fi f x hx
      obtain ⟨hfile, hex⟩ := msgs_exts_mem fi f.msgs [] 4 0 x hm
      show (childRefs fi x.1.path 6 x.2.exts.length).map _ = _
      rw [childRefs_map fi x.1.path 6 x.2.exts]
      apply List.map_congr_left
      intro q hq
      have hin : ((⟨fi, x.1.path ++ [6, q.1]⟩ : Ref), q.2) ∈ allExts 0 w.files := by
        apply extsOfFile_sub w fi f hf
        unfold extsOfFile
        exact List.mem_append_right _ (hex q hq)
      exact ext_used w hv g hg _ hin
  rw [unusedImports_unfold, hA, hB, hC, C04_imports w hv g hg fi]
  rfl

/-- **C04 (unused imports, as the property words it)**: `d` is reported unused exactly when it is a
    direct import of the file that is not public and defines nothing that a field, method or
    extension declared in the file references. -/
theorem C04_unused_mem (w : World) (hv : Valid w) (g : Graph) (hg : hydrate w = .ok g)
    (fi : Nat) (f : FileD) (hf : w.files[fi]? = some f) (d : Nat) :
    d ∈ unusedImports w g fi f ↔
      (∃ i, (specImports w fi)[i]? = some d ∧ i ∉ f.publicDeps) ∧ d ∉ specUsedFiles w fi f := by
  rw [C04_unused w hv g hg fi f hf]
  unfold specUnused
  rw [List.mem_filter, List.mem_filterMap]
  constructor
  · rintro ⟨⟨⟨i, d'⟩, hm, hif⟩, hc⟩
    have hif' : i ∉ f.publicDeps ∧ d' = d := by simpa using hif
    refine ⟨⟨i, ?_, hif'.1⟩, by simpa using hc⟩
    rw [← hif'.2]; exact idx_mem _ _ _ hm
  · rintro ⟨⟨i, hi, hp⟩, hn⟩
    refine ⟨⟨(i, d), idx_of_get _ _ _ hi, by simp [hp]⟩, by simpa using hn⟩

/-! non-vacuity on the example request of Props/C01 (b.proto imports a.proto and uses it) -/
example : specUnused exW 1 (exW.files[1]'(by decide)) = [] := by decide

/-! and on a request with an unused import and an unused *public* import: c.proto imports a.proto
    (used by a field), u.proto (unused) and pub.proto (unused, but public) -/
def exFileU : FileD :=
  ⟨"u.proto", "u", "proto3", [], [], [], .cons ⟨"U", false, [], [], [], []⟩ .nil .nil, [], [], [], ""⟩
def exFileP : FileD :=
  ⟨"pub.proto", "pb", "proto3", [], [], [], .cons ⟨"P", false, [], [], [], []⟩ .nil .nil, [], [], [], ""⟩
def exFileC : FileD :=
  ⟨"c.proto", "c", "proto3", ["a.proto", "u.proto", "pub.proto"], [2], [],
    .cons ⟨"C", false, [⟨"m", 1, 1, 11, ".p.M", none, false, ""⟩], [], [], []⟩ .nil .nil, [], [], [], ""⟩
def exU : World := ⟨[exA, exFileU, exFileP, exFileC], ["c.proto"], false⟩
theorem exU_valid : Valid exU := validB_sound exU (by decide)
example : specUnused exU 3 exFileC = [1] := by decide
example : ∃ g, hydrate exU = .ok g ∧ unusedImports exU g 3 exFileC = [1] := by
  obtain ⟨g, hg, _⟩ := C01_no_failure exU exU_valid
  exact ⟨g, hg, by rw [C04_unused exU exU_valid g hg 3 exFileC rfl]; decide⟩

end Pgs.AST
