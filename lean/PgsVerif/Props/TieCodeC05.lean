import PgsVerif.Model.Closure
import PgsVerif.Generated.Code_msg_getDependents
import PgsVerif.Generated.Code_msg_getDependencies
import PgsVerif.Generated.Code_messageSetToSlice
import PgsVerif.Generated.Code_msg_populateDependentsCache
import PgsVerif.Generated.Code_msg_populateDependenciesCache
import PgsVerif.Generated.Code_msg_Dependents
import PgsVerif.Generated.Code_msg_Dependencies
import PgsVerif.Generated.Code_enum_populateDependentsCache
import PgsVerif.Generated.Code_enum_Dependents
/-!
# Tie (translated code): the dependency closures and their memos

`getDependents` / `getDependencies` (the depth-first traversal with a visited set), the four
`populate…Cache` functions, `messageSetToSlice` and the accessors `Dependents()` / `Dependencies()` of
message.go and enum.go are translated from the current source: the traversal as a fuelled recursion
(one unit of fuel per level), the memo as the state an accessor reads and may fill.  The model the
C05 / C06 theorems are about - `dfs`, `closure`, `query` - is those translations:

* `tie_getDependents`, `tie_getDependencies` : `dfs` IS the translated traversal;
* `tie_closure_*`                            : what fills an empty memo is the translated `populate…Cache`;
* `tie_query_*`                              : an accessor call of the model = the translated accessor on
                                               that entity's memo (filled memo: answered from it, nothing
                                               recomputed; empty: filled with the complete traversal).
-/
namespace Pgs.AST
open Pgs.GenCode

theorem foldl_ext_mem {α β : Type} (f g : β → α → β) : ∀ (l : List α) (s : β), (∀ s, ∀ d ∈ l, f s d = g s d) → l.foldl f s = l.foldl g s := by
  intro l
  induction l with
  | nil => intro s _; rfl
  | cons a l ih =>
    intro s h
    simp only [List.foldl_cons]
    rw [h s a (List.mem_cons_self ..)]
    exact ih _ (fun s d hd => h s d (List.mem_cons_of_mem _ hd))

/-- **the traversal**: the model's `dfs` is the translated `getDependents` -/
theorem tie_getDependents (adj : Ref → List Ref) : ∀ (fuel : Nat) (m : Ref) (seen : List Ref),
    dfs adj fuel m seen = msg_getDependents adj fuel m seen := by
  intro fuel
  induction fuel with
  | zero => intro m seen; rfl
  | succ f ih =>
    intro m seen
    simp only [dfs, msg_getDependents]
    apply foldl_ext_mem
    intro s d _
    by_cases h : d ∈ s
    · simp [h]
    · simp [h, ih]

theorem tie_getDependencies (adj : Ref → List Ref) : ∀ (fuel : Nat) (m : Ref) (seen : List Ref),
    dfs adj fuel m seen = msg_getDependencies adj fuel m seen := by
  intro fuel
  induction fuel with
  | zero => intro m seen; rfl
  | succ f ih =>
    intro m seen
    simp only [dfs, msg_getDependencies]
    apply foldl_ext_mem
    intro s d _
    by_cases h : d ∈ s
    · simp [h]
    · simp [h, ih]

/-- what fills an empty memo: the translated `populateDependentsCache` / `populateDependenciesCache` -/
theorem tie_closure_dependents (edges eedges : List (Ref × Ref)) (r : Ref) :
    some (closure edges eedges r .dependents) =
      msg_populateDependentsCache (msg_getDependents (preds edges) (fuelFor edges eedges)) r none := by
  simp [closure, msg_populateDependentsCache, tie_getDependents]

theorem tie_closure_dependencies (edges eedges : List (Ref × Ref)) (r : Ref) :
    some (closure edges eedges r .dependencies) =
      msg_populateDependenciesCache (msg_getDependencies (succs edges) (fuelFor edges eedges)) r none := by
  simp [closure, msg_populateDependenciesCache, tie_getDependencies]

/-- a filled memo is never recomputed -/
theorem tie_populate_filled (walk : Ref → List Ref → List Ref) (r : Ref) (s : List Ref) :
    msg_populateDependentsCache walk r (some s) = some s ∧ msg_populateDependenciesCache walk r (some s) = some s := ⟨rfl, rfl⟩

theorem tie_present (r : Ref) (s : List Ref) : present r .dependents s = messageSetToSlice r s ∧ present r .dependencies s = messageSetToSlice r s := by
  simp [present, messageSetToSlice]

/-- **`Message.Dependents()`**: the model's accessor call is the translated accessor on the message's memo -/
theorem tie_query_dependents (edges eedges : List (Ref × Ref)) (c : Caches) (r : Ref) :
    (query edges eedges c r .dependents).2 =
      (msg_Dependents (msg_getDependents (preds edges) (fuelFor edges eedges)) r (c.get r .dependents)).2 ∧
    (query edges eedges c r .dependents).1.get r .dependents =
      (msg_Dependents (msg_getDependents (preds edges) (fuelFor edges eedges)) r (c.get r .dependents)).1 := by
  unfold query msg_Dependents
  cases hc : c.get r .dependents with
  | some s => simp [msg_populateDependentsCache, (tie_present r s).1, hc]
  | none =>
    have h := tie_closure_dependents edges eedges r
    simp only [← h, Option.getD_some, (tie_present r _).1]
    simp [Caches.get, Caches.put]

/-- **`Message.Dependencies()`** -/
theorem tie_query_dependencies (edges eedges : List (Ref × Ref)) (c : Caches) (r : Ref) :
    (query edges eedges c r .dependencies).2 =
      (msg_Dependencies (msg_getDependencies (succs edges) (fuelFor edges eedges)) r (c.get r .dependencies)).2 ∧
    (query edges eedges c r .dependencies).1.get r .dependencies =
      (msg_Dependencies (msg_getDependencies (succs edges) (fuelFor edges eedges)) r (c.get r .dependencies)).1 := by
  unfold query msg_Dependencies
  cases hc : c.get r .dependencies with
  | some s => simp [msg_populateDependenciesCache, (tie_present r s).2, hc]
  | none =>
    have h := tie_closure_dependencies edges eedges r
    simp only [← h, Option.getD_some, (tie_present r _).2]
    simp [Caches.get, Caches.put]

/-! ### enums: the first level runs over the enum's users, from there on `getDependents` of messages -/

/-- away from the enum itself the enum's adjacency is the message adjacency -/
theorem dfs_enumAdj (edges eedges : List (Ref × Ref)) (e : Ref) (he : ∀ p ∈ edges, p.1 ≠ e) :
    ∀ (fuel : Nat) (d : Ref) (s : List Ref), d ≠ e → dfs (enumAdj edges eedges e) fuel d s = dfs (preds edges) fuel d s := by
  intro fuel
  induction fuel with
  | zero => intro d s _; rfl
  | succ f ih =>
    intro d s hd
    simp only [dfs, enumAdj, hd, if_false]
    apply foldl_ext_mem
    intro s' d' hd'
    have hne : d' ≠ e := by
      simp only [preds, List.mem_map, List.mem_filter] at hd'
      obtain ⟨p, ⟨hp, _⟩, rfl⟩ := hd'
      exact he p hp
    rw [ih d' (d' :: s') hne]

/-- **`Enum.Dependents()`**: what fills the enum's empty memo is the translated `populateDependentsCache`:
    its direct users, each followed by the translated `getDependents` of messages -/
theorem tie_closure_enum (edges eedges : List (Ref × Ref)) (e : Ref)
    (he : ∀ p ∈ edges, p.1 ≠ e) (hee : ∀ p ∈ eedges, p.1 ≠ e) :
    some (closure edges eedges e .enumDependents) =
      enum_populateDependentsCache (preds eedges) (msg_getDependents (preds edges) (edges.length + eedges.length + 1)) e none := by
  have hf : fuelFor edges eedges = (edges.length + eedges.length + 1) + 1 := by simp [fuelFor]
  simp only [closure, hf, enum_populateDependentsCache, Option.isSome_none, Bool.false_eq_true, if_false, Option.some.injEq]
  rw [dfs]
  have hadj : enumAdj edges eedges e e = preds eedges e := by simp [enumAdj]
  rw [hadj]
  apply foldl_ext_mem
  intro s d hd
  have hne : d ≠ e := by
    simp only [preds, List.mem_map, List.mem_filter] at hd
    obtain ⟨p, ⟨hp, _⟩, rfl⟩ := hd
    exact hee p hp
  by_cases h : d ∈ s
  · simp [h]
  · simp only [h, if_false, List.contains_eq_mem, decide_false, Bool.false_eq_true]
    rw [dfs_enumAdj edges eedges e he _ d (d :: s) hne, tie_getDependents]

/-- an enum's answer is its whole memo (`messageSetToSlice("", …)` removes nothing) -/
theorem tie_present_enum (s : List Ref) (h : noRef ∉ s) : present noRef .enumDependents s = messageSetToSlice noRef s := by
  simp only [present, messageSetToSlice, List.nil_append]
  symm
  apply List.filter_eq_self.mpr
  intro a ha
  have : a ≠ noRef := fun e => h (e ▸ ha)
  simpa using this

end Pgs.AST
