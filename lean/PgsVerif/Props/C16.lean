import PgsVerif.Model.GoNames
/-!
# C16 — predicted Go identifiers equal what the pinned protoc-gen-go emits

Key facts relating the two transcriptions: pgsgo's `camelCase` (copied from the old generator)
and protobuf-go v1.23.0's `strs.GoCamelCase`; pgsgo's `joinChild` chain and `GoCamelCase` of the
dotted nested name.  For **all** byte strings (identifiers never contain dots).
-/
namespace Pgs.GoNames
open Pgs

theorem dot_ne_underscore : (dot == underscore) = false := by decide
theorem isLower_dot : isLower dot = false := by decide
theorem isDigit_dot : isDigitB dot = false := by decide

/-- away from the start and without dots, `GoCamelCase`'s loop is `camelCase`'s loop -/
theorem goCamelAux_eq_camelAux (s : Bytes) (hs : dot ∉ s) : ∀ copy, Protogen.goCamelAux false copy s = PgsGo.camelAux copy s := by
  induction s with
  | nil => intro copy; rfl
  | cons c rest ih =>
    intro copy
    have hc : (c == dot) = false := by
      have : c ≠ dot := fun e => hs (e ▸ List.mem_cons_self ..)
      simpa using this
    have hr : dot ∉ rest := fun h => hs (List.mem_cons_of_mem _ h)
    simp only [Protogen.goCamelAux, PgsGo.camelAux, hc, Bool.false_and, Bool.and_false, Bool.false_eq_true, if_false, ih hr]

/-- **`camelCase` = `GoCamelCase`** on every name without a dot. -/
theorem C16_camelCase_eq_GoCamelCase (s : Bytes) (hs : dot ∉ s) : Protogen.goCamelCase s = PgsGo.camelCase s := by
  cases s with
  | nil => rfl
  | cons c rest =>
    have hc : (c == dot) = false := by
      have : c ≠ dot := fun e => hs (e ▸ List.mem_cons_self ..)
      simpa using this
    have hr : dot ∉ rest := fun h => hs (List.mem_cons_of_mem _ h)
    unfold Protogen.goCamelCase PgsGo.camelCase
    by_cases hu : (c == underscore) = true
    · simp only [Protogen.goCamelAux, hc, hu, Bool.false_and, Bool.and_true, Bool.false_eq_true, if_false, if_true,
        goCamelAux_eq_camelAux rest hr]
    · have hu' : (c == underscore) = false := by simpa using hu
      simp only [Protogen.goCamelAux, PgsGo.camelAux, hc, hu', Bool.false_and, Bool.and_false, Bool.false_eq_true,
        if_false, goCamelAux_eq_camelAux rest hr]

theorem nextLower_append_dot (a b : Bytes) : nextLower (a ++ dot :: b) = nextLower a := by
  cases a with
  | nil => simp [nextLower, isLower_dot]
  | cons x a => rfl

/-- `GoCamelCase` is compositional at a dot: the part after the dot is camel-cased on its own,
    joined with '_' unless it starts with a lower-case letter -/
theorem goCamelAux_at_dot (b : Bytes) : ∀ (a : Bytes) (st copy : Bool),
    Protogen.goCamelAux st copy (a ++ dot :: b) =
      Protogen.goCamelAux st copy a ++
        (if nextLower b then Protogen.goCamelAux true false b else underscore :: Protogen.goCamelAux true false b) := by
  intro a
  induction a with
  | nil =>
    intro st copy
    simp only [List.nil_append, Protogen.goCamelAux, isLower_dot, Bool.and_false, Bool.false_eq_true, if_false, beq_self_eq_true,
      Bool.true_and]
    split <;> simp
  | cons c a ih =>
    intro st copy
    simp only [List.cons_append, Protogen.goCamelAux, nextLower_append_dot, ih]
    repeat' split
    all_goals simp

/-- `joinChild` of the parent's Go name is `GoCamelCase` of the dotted name -/
theorem C16_joinChild (A b : Bytes) (hb : dot ∉ b) :
    Protogen.goCamelCase (A ++ dot :: b) = PgsGo.joinChild (Protogen.goCamelCase A) b := by
  unfold Protogen.goCamelCase PgsGo.joinChild
  rw [goCamelAux_at_dot]
  have := C16_camelCase_eq_GoCamelCase b hb
  unfold Protogen.goCamelCase at this
  rw [this]
  split <;> simp

theorem joinWith_dot_foldl (n : Bytes) (rest : List Bytes) :
    joinWith [dot] (n :: rest) = rest.foldl (fun acc b => acc ++ dot :: b) n := by
  induction rest generalizing n with
  | nil => rfl
  | cons b rest ih =>
    rw [joinWith_cons_cons_dot, List.foldl_cons, ← ih]
    -- joinWith [dot] ((n ++ dot :: b) :: rest) = n ++ [dot] ++ joinWith [dot] (b :: rest)
    cases rest with
    | nil => simp [joinWith]
    | cons c rest => simp [joinWith]
where
  joinWith_cons_cons_dot {n b : Bytes} {rest : List Bytes} :
      joinWith [dot] (n :: b :: rest) = n ++ [dot] ++ joinWith [dot] (b :: rest) := rfl

/-- **Nested types**: pgsgo's chain of `joinChild` from the outermost message is exactly
    `GoCamelCase` of the dotted nested name, at any nesting depth. -/
theorem C16_nested_name (path : List Bytes) (h : ∀ n ∈ path, dot ∉ n) :
    PgsGo.nestedName path = Protogen.nestedName path := by
  cases path with
  | nil => rfl
  | cons n rest =>
    unfold PgsGo.nestedName Protogen.nestedName
    rw [joinWith_dot_foldl]
    have hn : dot ∉ n := h n (List.mem_cons_self ..)
    have key : ∀ (rest : List Bytes) (A : Bytes), (∀ b ∈ rest, dot ∉ b) →
        rest.foldl PgsGo.joinChild (Protogen.goCamelCase A) =
          Protogen.goCamelCase (rest.foldl (fun acc b => acc ++ dot :: b) A) := by
      intro rest
      induction rest with
      | nil => intro A _; rfl
      | cons b rest ih =>
        intro A hr
        simp only [List.foldl_cons]
        rw [← C16_joinChild A b (hr b (List.mem_cons_self ..))]
        exact ih _ (fun x hx => hr x (List.mem_cons_of_mem _ hx))
    show List.foldl PgsGo.joinChild (PgsGo.camelCase n) rest = _
    rw [← C16_camelCase_eq_GoCamelCase n hn]
    exact key rest n (fun b hb => h b (List.mem_cons_of_mem _ hb))

/-- both sides resolve field / oneof names with the same algorithm over their camel-casing:
    when the camel-casings agree on the message's identifiers, so do the resolved names -/
theorem C16_unique_names (fields : List AST.FieldD) (oneofs : List String)
    (h : ∀ s : String, PgsGo.camelCase (bytesOfString s) = Protogen.goCamelCase (bytesOfString s)) :
    uniqueNames PgsGo.camelCase fields oneofs = uniqueNames Protogen.goCamelCase fields oneofs := by
  unfold uniqueNames
  simp only [h]

/-! ### non-vacuity: Outer._inner.x_y -/
example : PgsGo.nestedName [[79,117,116,101,114], [95,105,110,110,101,114], [120,95,121]]
    = [79,117,116,101,114,95,88,73,110,110,101,114,88,89] := by decide

end Pgs.GoNames
