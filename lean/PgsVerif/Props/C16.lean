import PgsVerif.Model.GoNames
/-!
# C16 — predicted Go identifiers equal what the pinned protoc-gen-go emits

Key facts relating the two transcriptions: pgsgo's `camelCase` (copied from the old generator)
and protobuf-go v1.23.0's `strs.GoCamelCase`; pgsgo's `joinChild` chain and `GoCamelCase` of the
dotted nested name.  For **all** byte strings (identifiers never contain dots).
-/
namespace Pgs.GoNames
open Pgs

theorem dot_ne_underscore : (dot == underscore) = false := by decide
theorem isLower_dot : isLower dot = false := by decide
theorem isDigit_dot : isDigitB dot = false := by decide

/-- away from the start and without dots, `GoCamelCase`'s loop is `camelCase`'s loop -/
theorem goCamelAux_eq_camelAux (s : Bytes) (hs : dot ∉ s) : ∀ copy, Protogen.goCamelAux false copy s = PgsGo.camelAux copy s := by
  induction s with
  | nil => intro copy; rfl
  | cons c rest ih =>
    intro copy
    have hc : (c == dot) = false := by
      have : c ≠ dot := fun e => hs (e ▸ List.mem_cons_self ..)
      simpa using this
    have hr : dot ∉ rest := fun h => hs (List.mem_cons_of_mem _ h)
    simp only [Protogen.goCamelAux, PgsGo.camelAux, hc, Bool.false_and, Bool.and_false, Bool.false_eq_true, if_false, ih hr]

/-- **`camelCase` = `GoCamelCase`** on every name without a dot. -/
theorem C16_camelCase_eq_GoCamelCase (s : Bytes) (hs : dot ∉ s) : Protogen.goCamelCase s = PgsGo.camelCase s := by
  cases s with
  | nil => rfl
  | cons c rest =>
    have hc : (c == dot) = false := by
      have : c ≠ dot := fun e => hs (e ▸ List.mem_cons_self ..)
      simpa using this
    have hr : dot ∉ rest := fun h => hs (List.mem_cons_of_mem _ h)
    unfold Protogen.goCamelCase PgsGo.camelCase
    by_cases hu : (c == underscore) = true
    · simp only [Protogen.goCamelAux, hc, hu, Bool.false_and, Bool.and_true, Bool.false_eq_true, if_false, if_true,
        goCamelAux_eq_camelAux rest hr]
    · have hu' : (c == underscore) = false := by simpa using hu
      simp only [Protogen.goCamelAux, PgsGo.camelAux, hc, hu', Bool.false_and, Bool.and_false, Bool.false_eq_true,
        if_false, goCamelAux_eq_camelAux rest hr]

theorem nextLower_append_dot (a b : Bytes) : nextLower (a ++ dot :: b) = nextLower a := by
  cases a with
  | nil => simp [nextLower, isLower_dot]
  | cons x a => rfl

/-- `GoCamelCase` is compositional at a dot: the part after the dot is camel-cased on its own,
    joined with '_' unless it starts with a lower-case letter -/
theorem goCamelAux_at_dot (b : Bytes) : ∀ (a : Bytes) (st copy : Bool),
    Protogen.goCamelAux st copy (a ++ dot :: b) =
      Protogen.goCamelAux st copy a ++
        (if nextLower b then Protogen.goCamelAux true false b else underscore :: Protogen.goCamelAux true false b) := by
  intro a
  induction a with
  | nil =>
    intro st copy
    simp only [List.nil_append, Protogen.goCamelAux, isLower_dot, Bool.and_false, Bool.false_eq_true, if_false, beq_self_eq_true,
      Bool.true_and]
    split <;> simp
  | cons c a ih =>
    intro st copy
    simp only [List.cons_append, Protogen.goCamelAux, nextLower_append_dot, ih]
    repeat' split
    all_goals simp

/-- `joinChild` of the parent's Go name is `GoCamelCase` of the dotted name -/
theorem C16_joinChild (A b : Bytes) (hb : dot ∉ b) :
    Protogen.goCamelCase (A ++ dot :: b) = PgsGo.joinChild (Protogen.goCamelCase A) b := by
  unfold Protogen.goCamelCase PgsGo.joinChild
  rw [goCamelAux_at_dot]
  have := C16_camelCase_eq_GoCamelCase b hb
  unfold Protogen.goCamelCase at this
  rw [this]
  split <;> simp

theorem joinWith_dot_foldl (n : Bytes) (rest : List Bytes) :
    joinWith [dot] (n :: rest) = rest.foldl (fun acc b => acc ++ dot :: b) n := by
  induction rest generalizing n with
  | nil => rfl
  | cons b rest ih =>
    rw [joinWith_cons_cons_dot, List.foldl_cons, ← ih]
    -- joinWith [dot] ((n ++ dot :: b) :: rest) = n ++ [dot] ++ joinWith [dot] (b :: rest)
    cases rest with
    | nil => simp [joinWith]
    | cons c rest => simp [joinWith]
where
  joinWith_cons_cons_dot {n b : Bytes} {rest : List Bytes} :
      joinWith [dot] (n :: b :: rest) = n ++ [dot] ++ joinWith [dot] (b :: rest) := rfl

/-- **Nested types**: pgsgo's chain of `joinChild` from the outermost message is exactly
    `GoCamelCase` of the dotted nested name, at any nesting depth. -/
theorem C16_nested_name (path : List Bytes) (h : ∀ n ∈ path, dot ∉ n) :
    PgsGo.nestedName path = Protogen.nestedName path := by
  cases path with
  | nil => rfl
  | cons n rest =>
    unfold PgsGo.nestedName Protogen.nestedName
    rw [joinWith_dot_foldl]
    have hn : dot ∉ n := h n (List.mem_cons_self ..)
    have key : ∀ (rest : List Bytes) (A : Bytes), (∀ b ∈ rest, dot ∉ b) →
        rest.foldl PgsGo.joinChild (Protogen.goCamelCase A) =
          Protogen.goCamelCase (rest.foldl (fun acc b => acc ++ dot :: b) A) := by
      intro rest
      induction rest with
      | nil => intro A _; rfl
      | cons b rest ih =>
        intro A hr
        simp only [List.foldl_cons]
        rw [← C16_joinChild A b (hr b (List.mem_cons_self ..))]
        exact ih _ (fun x hx => hr x (List.mem_cons_of_mem _ hx))
    show List.foldl PgsGo.joinChild (PgsGo.camelCase n) rest = _
    rw [← C16_camelCase_eq_GoCamelCase n hn]
    exact key rest n (fun b hb => h b (List.mem_cons_of_mem _ hb))

/-- both sides resolve field / oneof names with the same algorithm over their camel-casing:
    when the camel-casings agree on the message's identifiers, so do the resolved names -/
theorem C16_unique_names (fields : List AST.FieldD) (oneofs : List String)
    (h : ∀ s : String, PgsGo.camelCase (bytesOfString s) = Protogen.goCamelCase (bytesOfString s)) :
    uniqueNames PgsGo.camelCase fields oneofs = uniqueNames Protogen.goCamelCase fields oneofs := by
  unfold uniqueNames
  simp only [h]

/-! ### non-vacuity: Outer._inner.x_y -/
example : PgsGo.nestedName [[79,117,116,101,114], [95,105,110,110,101,114], [120,95,121]]
    = [79,117,116,101,114,95,88,73,110,110,101,114,88,89] := by decide

end Pgs.GoNames

/-! ### the whole name table of a file -/
namespace Pgs.GoNames
open Pgs Pgs.AST

/-- a string without '.' (every protobuf identifier) -/
def NoDot (s : String) : Prop := dot ∉ bytesOfString s

/-- all identifiers of a sibling list of messages, at every depth, are dot-free -/
def NoDotMsgs : Msgs → Prop
  | .nil => True
  | .cons h nested rest =>
    NoDot h.name ∧ (∀ f ∈ h.fields, NoDot f.name) ∧ (∀ o ∈ h.oneofs, NoDot o) ∧ (∀ e ∈ h.enums, NoDot e.name) ∧
    NoDotMsgs nested ∧ NoDotMsgs rest

def NoDotFile (f : FileD) : Prop :=
  (∀ e ∈ f.enums, NoDot e.name) ∧ NoDotMsgs f.msgs ∧
  (∀ s ∈ f.services, NoDot s.name ∧ ∀ m ∈ s.methods, NoDot m.name)

theorem camel_agree (s : String) (h : NoDot s) : pgsSide.camel (bytesOfString s) = genSide.camel (bytesOfString s) :=
  (C16_camelCase_eq_GoCamelCase _ h).symm

theorem camel_agree_empty : pgsSide.camel (bytesOfString "") = genSide.camel (bytesOfString "") :=
  camel_agree "" (by simp [NoDot, bytesOfString])

theorem foldl_congr_mem {α β} {f g : β → α → β} : ∀ (l : List α) (b : β), (∀ b, ∀ x ∈ l, f b x = g b x) → l.foldl f b = l.foldl g b := by
  intro l
  induction l with
  | nil => intro b _; rfl
  | cons a l ih =>
    intro b h
    simp only [List.foldl_cons, h b a (List.mem_cons_self ..)]
    exact ih _ (fun b x hx => h b x (List.mem_cons_of_mem _ hx))

/-- the step of the unique-name pass, named -/
def uStep (camel : Bytes → Bytes) (fields : List FieldD) (oneofs : List String)
    (acc : Used × List Bytes × List (Nat × Bytes)) (p : Nat × FieldD) : Used × List Bytes × List (Nat × Bytes) :=
  let firstMember (o : Nat) : Option Nat := (idx fields).findSome? fun (i, f) => if f.oneofIndex == some o then some i else none
  let (u, fs, os) := acc
  let (i, f) := p
  let (fname, u1) := makeUnique u (camel (bytesOfString f.name)) true
  match f.oneofIndex with
  | some o =>
    if firstMember o == some i then
      let (oname, u2) := makeUnique u1 (camel (bytesOfString (oneofs.getD o ""))) false
      (u2, fs ++ [fname], os ++ [(o, oname)])
    else (u1, fs ++ [fname], os)
  | none => (u1, fs ++ [fname], os)

theorem uniqueNames_eq (camel : Bytes → Bytes) (fields : List FieldD) (oneofs : List String) :
    uniqueNames camel fields oneofs =
      (((idx fields).foldl (uStep camel fields oneofs) (protectedNames.map fun n => (n, true), [], [])).2.1,
       ((idx fields).foldl (uStep camel fields oneofs) (protectedNames.map fun n => (n, true), [], [])).2.2) := rfl

/-- the unique-name pass only looks at the camel-casing of the names it is given -/
theorem uniqueNames_congr (c1 c2 : Bytes → Bytes) (fields : List FieldD) (oneofs : List String)
    (hf : ∀ f ∈ fields, c1 (bytesOfString f.name) = c2 (bytesOfString f.name))
    (ho : ∀ o : Nat, c1 (bytesOfString (oneofs.getD o "")) = c2 (bytesOfString (oneofs.getD o ""))) :
    uniqueNames c1 fields oneofs = uniqueNames c2 fields oneofs := by
  rw [uniqueNames_eq, uniqueNames_eq]
  have : (idx fields).foldl (uStep c1 fields oneofs) (protectedNames.map fun n => (n, true), [], [])
       = (idx fields).foldl (uStep c2 fields oneofs) (protectedNames.map fun n => (n, true), [], []) := by
    apply foldl_congr_mem
    intro acc p hp
    obtain ⟨i, f⟩ := p
    have hm : f ∈ fields := (List.of_mem_zip hp).2
    simp only [uStep, hf f hm, ho]
  rw [this]

theorem getD_noDot (oneofs : List String) (h : ∀ o ∈ oneofs, NoDot o) (o : Nat) : NoDot (oneofs.getD o "") := by
  unfold List.getD
  cases ho : oneofs[o]? with
  | none => simp [NoDot, bytesOfString]
  | some x => exact h x (List.mem_of_getElem? ho)

theorem nested_agree (path : List Bytes) (h : ∀ n ∈ path, dot ∉ n) : pgsSide.nested path = genSide.nested path :=
  C16_nested_name path h

/-- **C16 (whole messages)**: below any scope of dot-free names, the two transcriptions give every
    message, field, oneof, wrapper, enum and enum value the same Go identifier. -/
theorem msgNames_agree (fi : Nat) : ∀ (ms : Msgs) (p : List Nat) (tag : Nat) (scope : List Bytes) (i : Nat),
    (∀ n ∈ scope, dot ∉ n) → NoDotMsgs ms →
    msgNames pgsSide fi p tag scope i ms = msgNames genSide fi p tag scope i ms := by
  intro ms
  induction ms with
  | nil => intro p tag scope i _ _; rfl
  | cons h nested rest ih1 ih2 =>
    intro p tag scope i hsc hnd
    obtain ⟨hn, hf, ho, he, hnest, hrest⟩ := hnd
    have hpath : ∀ n ∈ scope ++ [bytesOfString h.name], dot ∉ n := by
      intro n hn'
      rcases List.mem_append.mp hn' with h1 | h1
      · exact hsc n h1
      · simp only [List.mem_singleton] at h1; rw [h1]; exact hn
    have hm : pgsSide.nested (scope ++ [bytesOfString h.name]) = genSide.nested (scope ++ [bytesOfString h.name]) :=
      nested_agree _ hpath
    have hu : uniqueNames pgsSide.camel h.fields h.oneofs = uniqueNames genSide.camel h.fields h.oneofs :=
      uniqueNames_congr _ _ _ _ (fun f hf' => camel_agree _ (hf f hf')) (fun o => camel_agree _ (getD_noDot _ ho o))
    have hchild : ∀ (x : String), NoDot x →
        pgsSide.nested (scope ++ [bytesOfString h.name] ++ [bytesOfString x]) = genSide.nested (scope ++ [bytesOfString h.name] ++ [bytesOfString x]) := by
      intro x hx
      apply nested_agree
      intro n hn'
      rcases List.mem_append.mp hn' with h1 | h1
      · exact hpath n h1
      · simp only [List.mem_singleton] at h1; rw [h1]; exact hx
    have hheads : ∀ x ∈ nested.heads, NoDot x.1.name := by
      clear ih1 ih2 hm hu
      intro x hx
      induction nested with
      | nil => simp [Msgs.heads] at hx
      | cons h' n' r' _ ihr =>
        simp only [Msgs.heads, List.mem_cons] at hx
        rcases hx with rfl | hx
        · exact hnest.1
        · exact ihr hnest.2.2.2.2.2 hx
    have hnt : (nested.heads.map fun (x : MsgHead × Msgs) => pgsSide.nested (scope ++ [bytesOfString h.name] ++ [bytesOfString x.1.name]))
          ++ h.enums.map (fun e => pgsSide.nested (scope ++ [bytesOfString h.name] ++ [bytesOfString e.name]))
        = (nested.heads.map fun (x : MsgHead × Msgs) => genSide.nested (scope ++ [bytesOfString h.name] ++ [bytesOfString x.1.name]))
          ++ h.enums.map (fun e => genSide.nested (scope ++ [bytesOfString h.name] ++ [bytesOfString e.name])) := by
      congr 1
      · apply List.map_congr_left; intro x hx; exact hchild _ (hheads x hx)
      · apply List.map_congr_left; intro e he'; exact hchild _ (he e he')
    have henums : ((idx h.enums).map fun (q : Nat × EnumD) =>
          ((⟨fi, p ++ [tag, i] ++ [4, q.1]⟩ : Ref), "enum", pgsSide.nested (scope ++ [bytesOfString h.name] ++ [bytesOfString q.2.name]))
          :: (idx q.2.values).map fun (v : Nat × EnumValD) => ((⟨fi, p ++ [tag, i] ++ [4, q.1, 2, v.1]⟩ : Ref), "value",
                pgsSide.nested (scope ++ [bytesOfString h.name]) ++ underscore :: bytesOfString v.2.name))
        = ((idx h.enums).map fun (q : Nat × EnumD) =>
          ((⟨fi, p ++ [tag, i] ++ [4, q.1]⟩ : Ref), "enum", genSide.nested (scope ++ [bytesOfString h.name] ++ [bytesOfString q.2.name]))
          :: (idx q.2.values).map fun (v : Nat × EnumValD) => ((⟨fi, p ++ [tag, i] ++ [4, q.1, 2, v.1]⟩ : Ref), "value",
                genSide.nested (scope ++ [bytesOfString h.name]) ++ underscore :: bytesOfString v.2.name)) := by
      apply List.map_congr_left
      intro q hq
      have : q.2 ∈ h.enums := (List.of_mem_zip hq).2
      rw [hchild _ (he _ this), hm]
    simp only [msgNames]
    rw [ih2 p tag scope (i+1) hsc hrest, ih1 (p ++ [tag, i]) 3 (scope ++ [bytesOfString h.name]) 0 hpath hnest]
    by_cases hme : h.mapEntry = true
    · simp [hme]
    · have hme' : h.mapEntry = false := by simpa using hme
      simp only [hme', Bool.false_eq_true, if_false]
      rw [hu, hnt, henums, hm]

/-- **C16 (whole files)**: for every file whose identifiers are dot-free — every file protobuf
    accepts — pgsgo's transcription and protoc-gen-go's give the same Go identifier to every
    message, enum, enum value, field, oneof, oneof wrapper, service and method. -/
theorem C16_file_names (fi : Nat) (f : FileD) (h : NoDotFile f) : fileNames pgsSide fi f = fileNames genSide fi f := by
  obtain ⟨he, hm, hs⟩ := h
  unfold fileNames
  rw [msgNames_agree fi f.msgs [] 4 [] 0 (by simp) hm]
  congr 1
  · congr 2
    apply List.map_congr_left
    intro q hq
    obtain ⟨k, e⟩ := q
    have : e ∈ f.enums := (List.of_mem_zip hq).2
    have hn : pgsSide.nested [bytesOfString e.name] = genSide.nested [bytesOfString e.name] :=
      nested_agree _ (by intro n hn'; simp only [List.mem_singleton] at hn'; rw [hn']; exact he e this)
    simp only [hn]
  · congr 1
    apply List.map_congr_left
    intro q hq
    obtain ⟨k, sv⟩ := q
    have hsv : sv ∈ f.services := (List.of_mem_zip hq).2
    obtain ⟨hsn, hmn⟩ := hs sv hsv
    simp only [camel_agree _ hsn]
    congr 1
    apply List.map_congr_left
    intro m hm'
    obtain ⟨j, md⟩ := m
    have : md ∈ sv.methods := (List.of_mem_zip hm').2
    simp only [camel_agree _ (hmn md this)]

end Pgs.GoNames
