import PgsVerif.Model.GoNames
namespace Pgs.GoNames
theorem placeholder_C16 : True := trivial
end Pgs.GoNames
