import PgsVerif.Model.AstSem2
namespace Pgs.AST
theorem placeholder_C08 : True := trivial
end Pgs.AST
