import PgsVerif.Model.AstSem2
import PgsVerif.Proofs.Hydrate
import PgsVerif.Props.C01
/-!
# C08 — source locations attach to exactly the entity their path designates

`fileChildAt` / `msgChildAt` transcribe the `childAtPath` chain (file.go, message.go, enum.go,
service.go; `preservedMsgs` indexing; the odd-length rule).  Two directions, for every file and
every path:

* `C08_no_other`   — whatever entity a path is routed to, it is the entity whose declaration path
                     IS that path; so a location can never land on another entity, and paths that
                     designate names, numbers, options, ranges … (which are no declaration's path)
                     either resolve to nothing or to … nothing else: see `C08_only_designated`;
* `C08_designated` — the path of every declared message, field, oneof, enum, enum value, service,
                     method and extension — at any nesting depth, with map entries occupying
                     nested-type indices — is routed to that declaration.

`C08_only_designated` / `C08_attached` lift both to the state `hydrateSourceCodeInfo` builds by
folding `routeLoc` over the locations of a file.
-/
namespace Pgs.AST

/-! ### a path is routed to the entity with that path, or to nothing -/
theorem msgChildAt_path (fi : Nat) : ∀ (n : Nat) (path : List Nat), path.length ≤ n →
    ∀ (here : List Nat) (h : MsgHead) (nested : Msgs) (r : Ref),
    msgChildAt fi here h nested path = some r → r = ⟨fi, here ++ path⟩ := by
  intro n
  induction n with
  | zero =>
    intro path hl here h nested r hr
    cases path with
    | nil => simp [msgChildAt] at hr; simp [hr]
    | cons a t => simp at hl
  | succ n ih =>
    intro path hl here h nested r hr
    match path, hl with
    | [], _ => simp [msgChildAt] at hr; simp [hr]
    | [_], _ => simp [msgChildAt] at hr
    | tag :: i :: rest, hl =>
      rw [msgChildAt] at hr
      split at hr
      · simp at hr
      split at hr
      · split at hr
        · split at hr
          · rename_i h2 _ hrest; cases hr; simp [h2, hrest]
          · simp at hr
        · simp at hr
      split at hr
      · rename_i h3
        split at hr
        · rename_i h' n' hget
          have := ih rest (by simp at hl; omega) _ _ _ _ hr
          rw [this, h3]; simp
        · simp at hr
      split at hr
      · rename_i h4
        split at hr
        · split at hr
          · cases hr; simp [h4]
          · split at hr
            · cases hr; simp [h4]
            · simp at hr
          · simp at hr
        · simp at hr
      split at hr
      · rename_i h8
        split at hr
        · rename_i hc; cases hr; simp [h8, hc.2]
        · simp at hr
      split at hr
      · rename_i h6
        split at hr
        · rename_i hc; cases hr; simp [h6, hc.2]
        · simp at hr
      simp at hr

/-- **C08 (to no other entity)** -/
theorem C08_no_other (fi : Nat) (f : FileD) (path : List Nat) (r : Ref)
    (h : fileChildAt fi f path = some r) : r = ⟨fi, path⟩ := by
  unfold fileChildAt at h
  split at h
  · cases h; rfl
  · simp at h
  · rename_i tag i rest
    split at h
    · simp at h
    split at h
    · rename_i h4
      split at h
      · have := msgChildAt_path fi _ rest (Nat.le_refl _) _ _ _ _ h
        rw [this, h4]; simp
      · simp at h
    split at h
    · rename_i h5
      split at h
      · split at h
        · cases h; simp [h5]
        · split at h
          · cases h; simp [h5]
          · simp at h
        · simp at h
      · simp at h
    split at h
    · rename_i h6
      split at h
      · split at h
        · cases h; simp [h6]
        · split at h
          · cases h; simp [h6]
          · simp at h
        · simp at h
      · simp at h
    split at h
    · rename_i h7
      split at h
      · rename_i hc; cases h; simp [h7, hc.2]
      · simp at h
    simp at h

/-! ### every declaration's path is routed to that declaration -/
/-- what `msgChildAt` is asked for a declaration below a message: an even-length rest that is
    routed to the declaration -/
def RoutedBelow (fi : Nat) (here : List Nat) (h : MsgHead) (nested : Msgs) (d : Decl) : Prop :=
  ∃ rest, d.ref.path = here ++ rest ∧ rest.length % 2 = 0 ∧ msgChildAt fi here h nested rest = some d.ref ∧ d.ref.file = fi

theorem enums_routed (fi : Nat) (sc : String) (here : List Nat) (h : MsgHead) (nested : Msgs) :
    ∀ d ∈ declEnums fi sc here 4 h.enums, RoutedBelow fi here h nested d := by
  intro d hd
  simp only [declEnums, List.mem_flatten, List.mem_map] at hd
  obtain ⟨l, ⟨⟨i, e⟩, hi, rfl⟩, hd⟩ := hd
  have he := idx_mem _ _ _ hi
  simp only [declEnum, List.mem_cons, List.mem_map] at hd
  rcases hd with rfl | ⟨⟨v, ev⟩, hv, rfl⟩
  · exact ⟨[4, i], rfl, by simp, by simp [msgChildAt, he], rfl⟩
  · have hlt := idx_mem_lt _ _ _ hv
    exact ⟨[4, i, 2, v], by simp, by simp, by simp [msgChildAt, he, hlt], rfl⟩

theorem fields_routed (fi : Nat) (sc : String) (here : List Nat) (h : MsgHead) (nested : Msgs) :
    ∀ d ∈ declFields fi sc here 2 .field h.fields, RoutedBelow fi here h nested d := by
  intro d hd
  simp only [declFields, List.mem_map] at hd
  obtain ⟨⟨i, x⟩, hi, rfl⟩ := hd
  have hlt := idx_mem_lt _ _ _ hi
  exact ⟨[2, i], rfl, by simp, by simp [msgChildAt, hlt], rfl⟩

theorem exts_routed (fi : Nat) (sc : String) (here : List Nat) (h : MsgHead) (nested : Msgs) :
    ∀ d ∈ declFields fi sc here 6 .ext h.exts, RoutedBelow fi here h nested d := by
  intro d hd
  simp only [declFields, List.mem_map] at hd
  obtain ⟨⟨i, x⟩, hi, rfl⟩ := hd
  have hlt := idx_mem_lt _ _ _ hi
  exact ⟨[6, i], rfl, by simp, by simp [msgChildAt, hlt], rfl⟩

theorem oneofs_routed (fi : Nat) (sc : String) (here : List Nat) (h : MsgHead) (nested : Msgs) :
    ∀ d ∈ declOneofs fi sc here h.oneofs, RoutedBelow fi here h nested d := by
  intro d hd
  simp only [declOneofs, List.mem_map] at hd
  obtain ⟨⟨i, x⟩, hi, rfl⟩ := hd
  have hlt := idx_mem_lt _ _ _ hi
  exact ⟨[8, i], rfl, by simp, by simp [msgChildAt, hlt], rfl⟩

/-- the messages of a sibling list (a suffix `ms`, from index `i`, of the whole list `all`) and
    everything below them: each declaration is routed from the message of `all` it lies in -/
theorem msgs_routed (fi : Nat) : ∀ (ms : Msgs) (sc : String) (p : List Nat) (tag i : Nat) (all : Msgs),
    (∀ k, all.get? (i + k) = ms.get? k) →
    ∀ d ∈ declMsgs fi sc p tag i ms, ∃ j h' n', all.get? j = some (h', n') ∧ RoutedBelow fi (p ++ [tag, j]) h' n' d := by
  intro ms
  induction ms with
  | nil => intro sc p tag i all _ d hd; simp [declMsgs] at hd
  | cons h nested rest ih1 ih2 =>
    intro sc p tag i all hall d hd
    simp only [declMsgs, List.cons_append, List.mem_cons, List.mem_append] at hd
    have hget : all.get? i = some (h, nested) := by have := hall 0; simpa [Msgs.get?] using this
    rcases hd with rfl | (((((hd | hd) | hd) | hd) | hd) | hd)
    · exact ⟨i, h, nested, hget, [], by simp, rfl, by simp [msgChildAt], rfl⟩
    · exact ⟨i, h, nested, hget, enums_routed fi _ _ h nested d hd⟩
    · -- below a nested message: compose the routes
      obtain ⟨j, h2, n2, hg2, rest2, hp2, hev2, hr2, hf2⟩ := ih1 _ (p ++ [tag, i]) 3 0 nested (fun k => by simp) d hd
      refine ⟨i, h, nested, hget, 3 :: j :: rest2, by simp [hp2], by simp; omega, ?_, hf2⟩
      rw [msgChildAt]
      have : (rest2.length % 2 != 0) = false := by simp [hev2]
      simp only [List.append_assoc, List.cons_append, List.nil_append] at hr2
      simp [this, hg2, hr2]
    · exact ⟨i, h, nested, hget, oneofs_routed fi _ _ h nested d hd⟩
    · exact ⟨i, h, nested, hget, fields_routed fi _ _ h nested d hd⟩
    · exact ⟨i, h, nested, hget, exts_routed fi _ _ h nested d hd⟩
    · exact ih2 sc p tag (i+1) all (fun k => by
        have := hall (k+1)
        simp only [Msgs.get?] at this
        rw [← this]; congr 1; omega) d hd

/-- **C08 (designated)**: in file `fi`, the path of every declaration other than the file itself is
    routed to that declaration. -/
theorem C08_designated (fi : Nat) (f : FileD) : ∀ d ∈ declFile fi f, d.kind ≠ .file →
    fileChildAt fi f d.ref.path = some d.ref := by
  intro d hd hk
  simp only [declFile, declFileHead, declServices, List.cons_append, List.mem_cons, List.mem_append,
    List.mem_flatten, List.mem_map] at hd
  rcases hd with rfl | (((hd | hd) | hd) | ⟨l, ⟨⟨i, s⟩, hi, rfl⟩, hd⟩)
  · exact absurd rfl hk
  · -- file-level enums and their values
    simp only [declEnums, List.mem_flatten, List.mem_map] at hd
    obtain ⟨l, ⟨⟨i, e⟩, hi, rfl⟩, hd⟩ := hd
    have he := idx_mem _ _ _ hi
    simp only [declEnum, List.mem_cons, List.mem_map] at hd
    rcases hd with rfl | ⟨⟨v, ev⟩, hv, rfl⟩
    · simp [fileChildAt, he]
    · have hlt := idx_mem_lt _ _ _ hv
      simp [fileChildAt, he, hlt]
  · -- file-level extensions
    simp only [declFields, List.mem_map] at hd
    obtain ⟨⟨i, x⟩, hi, rfl⟩ := hd
    have hlt := idx_mem_lt _ _ _ hi
    simp [fileChildAt, hlt]
  · -- messages and everything below them
    obtain ⟨j, h', n', hg, rest, hp, hev, hr, hf⟩ := msgs_routed fi f.msgs _ [] 4 0 f.msgs (fun k => by simp) d hd
    have hpath : d.ref.path = 4 :: j :: rest := by simpa using hp
    rw [hpath, fileChildAt]
    have : (rest.length % 2 != 0) = false := by simp [hev]
    simp only [this, hg]
    simpa using hr
  · -- services and methods
    have hs := idx_mem _ _ _ hi
    simp only [declService, List.mem_cons, List.mem_map] at hd
    rcases hd with rfl | ⟨⟨m, em⟩, hm, rfl⟩
    · simp [fileChildAt, hs]
    · have hlt := idx_mem_lt _ _ _ hm
      simp [fileChildAt, hs, hlt]

end Pgs.AST

/-! ### the state `hydrateSourceCodeInfo` builds -/
namespace Pgs.AST

theorem routeLoc_infos (fi : Nat) (f : FileD) (st : InfoState) (l : Loc) :
    (routeLoc fi f st l).infos = st.infos ∨
    (∃ r, fileChildAt fi f l.path = some r ∧ r.path ≠ [] ∧ (routeLoc fi f st l).infos = (r, l.tag) :: st.infos) := by
  unfold routeLoc
  by_cases h0 : l.path = []
  · left; simp [h0]
  simp only [h0, if_false]
  split
  · left; split <;> (try split) <;> (try split) <;> rfl
  · cases hc : fileChildAt fi f l.path with
    | none => left; simp only; split <;> (try split) <;> (try split) <;> rfl
    | some r =>
      simp only
      by_cases hp : r.path = []
      · left; simp only [hp, if_true]; split <;> (try split) <;> (try split) <;> rfl
      · right
        refine ⟨r, rfl, hp, ?_⟩
        simp only [hp, if_false]
        split <;> (try split) <;> (try split) <;> rfl

/-- **C08 (only the designated entity)**: every (entity, location) pair in the final state comes
    from a location whose path is exactly that entity's declaration path. -/
theorem C08_only_designated (fi : Nat) (f : FileD) : ∀ (locs : List Loc) (st0 : InfoState),
    ∀ e ∈ (locs.foldl (routeLoc fi f) st0).infos,
      e ∈ st0.infos ∨ ∃ l ∈ locs, e.2 = l.tag ∧ e.1 = ⟨fi, l.path⟩ := by
  intro locs
  induction locs with
  | nil => intro st0 e he; exact .inl he
  | cons l locs ih =>
    intro st0 e he
    simp only [List.foldl_cons] at he
    rcases ih _ e he with h | ⟨l', hl', h1, h2⟩
    · rcases routeLoc_infos fi f st0 l with h0 | ⟨r, hr, _, h0⟩
      · rw [h0] at h; exact .inl h
      · rw [h0] at h
        rcases List.mem_cons.mp h with rfl | h
        · exact .inr ⟨l, List.mem_cons_self .., rfl, C08_no_other fi f _ _ hr⟩
        · exact .inl h
    · exact .inr ⟨l', List.mem_cons_of_mem _ hl', h1, h2⟩

theorem routeLoc_mono (fi : Nat) (f : FileD) (st : InfoState) (l : Loc) : ∀ e ∈ st.infos, e ∈ (routeLoc fi f st l).infos := by
  intro e he
  rcases routeLoc_infos fi f st l with h0 | ⟨r, _, _, h0⟩ <;> rw [h0]
  · exact he
  · exact List.mem_cons_of_mem _ he

theorem fold_mono (fi : Nat) (f : FileD) : ∀ (locs : List Loc) (st0 : InfoState),
    ∀ e ∈ st0.infos, e ∈ (locs.foldl (routeLoc fi f) st0).infos := by
  intro locs
  induction locs with
  | nil => intro st0 e he; exact he
  | cons l locs ih => intro st0 e he; exact ih _ e (routeLoc_mono fi f st0 l e he)

/-- declarations other than the file have a non-empty path -/
theorem decl_path_ne_nil (fi : Nat) (f : FileD) : ∀ d ∈ declFile fi f, d.kind ≠ .file → d.ref.path ≠ [] := by
  intro d hd hk hnil
  have h1 := C08_designated fi f d hd hk
  -- the only declaration routed from the empty path is the file; every other one was shown to be
  -- routed from `tag :: i :: rest`
  simp only [declFile, declFileHead, declServices, List.cons_append, List.mem_cons, List.mem_append,
    List.mem_flatten, List.mem_map] at hd
  rcases hd with rfl | (((hd | hd) | hd) | ⟨l, ⟨⟨i, s⟩, hi, rfl⟩, hd⟩)
  · exact hk rfl
  · simp only [declEnums, List.mem_flatten, List.mem_map] at hd
    obtain ⟨l, ⟨⟨i, e⟩, hi, rfl⟩, hd⟩ := hd
    simp only [declEnum, List.mem_cons, List.mem_map] at hd
    rcases hd with rfl | ⟨⟨v, ev⟩, hv, rfl⟩ <;> simp at hnil
  · simp only [declFields, List.mem_map] at hd
    obtain ⟨⟨i, x⟩, hi, rfl⟩ := hd
    simp at hnil
  · obtain ⟨j, h', n', hg, rest, hp, _⟩ := msgs_routed fi f.msgs _ [] 4 0 f.msgs (fun k => by simp) d hd
    rw [hnil] at hp; simp at hp
  · simp only [declService, List.mem_cons, List.mem_map] at hd
    rcases hd with rfl | ⟨⟨m, em⟩, hm, rfl⟩ <;> simp at hnil

/-- **C08 (attached)**: a location whose path designates a declaration is attached to it. -/
theorem C08_attached (fi : Nat) (f : FileD) (d : Decl) (hd : d ∈ declFile fi f) (hk : d.kind ≠ .file) :
    ∀ (locs : List Loc) (st0 : InfoState), ∀ l ∈ locs, l.path = d.ref.path →
      (d.ref, l.tag) ∈ (locs.foldl (routeLoc fi f) st0).infos := by
  intro locs
  induction locs with
  | nil => intro st0 l hl; simp at hl
  | cons l0 locs ih =>
    intro st0 l hl hp
    simp only [List.foldl_cons]
    rcases List.mem_cons.mp hl with rfl | hl
    · apply fold_mono
      have hc := C08_designated fi f d hd hk
      rw [← hp] at hc
      rcases routeLoc_infos fi f st0 l with h0 | ⟨r, hr, _, h0⟩
      · -- impossible: the location is routed to `d`, whose path is not empty
        exfalso
        have hne := decl_path_ne_nil fi f d hd hk
        unfold routeLoc at h0
        have hl0 : l.path ≠ [] := by rw [hp]; exact hne
        simp only [hl0, if_false] at h0
        have hlen : ¬ (l.path.length = 1 ∧ l.path ≠ [12] ∧ l.path ≠ [2]) := by
          intro ⟨h1, _⟩
          match hpl : l.path, h1 with
          | [x], _ => rw [hpl] at hc; simp [fileChildAt] at hc
        simp only [hlen, if_false, hc, hne] at h0
        have hX : (if l.path.length = 1 then
            if l.path = [12] then ({ st0 with syntaxInfo := some l.tag } : InfoState)
            else if l.path = [2] then { st0 with packageInfo := some l.tag } else st0
          else st0).infos = st0.infos := by
          split <;> (try split) <;> (try split) <;> rfl
        rw [hX] at h0
        have := congrArg List.length h0
        simp at this
      · rw [h0, hc] at *
        cases hr
        exact List.mem_cons_self ..
    · exact ih _ l hl hp

theorem loc_path_inj (locs : List Loc) (h : (locs.map (·.path)).Nodup) :
    ∀ a ∈ locs, ∀ b ∈ locs, a.path = b.path → a = b := by
  induction locs with
  | nil => intro a ha; simp at ha
  | cons x l ih =>
    simp only [List.map_cons, List.nodup_cons] at h
    intro a ha b hb e
    rcases List.mem_cons.mp ha with rfl | ha' <;> rcases List.mem_cons.mp hb with rfl | hb'
    · rfl
    · exact absurd (e ▸ List.mem_map_of_mem hb') h.1
    · exact absurd (e ▸ List.mem_map_of_mem ha') h.1
    · exact ih h.2 a ha' b hb' e

/-- **C08 (the information reported for an entity)**: with one location per path, the location
    reported for a declaration is the location whose path designates it — none if there is none,
    whatever other (distractor) locations the file carries. -/
theorem C08_info (fi : Nat) (f : FileD) (hnd : (f.locs.map (·.path)).Nodup)
    (d : Decl) (hd : d ∈ declFile fi f) (hk : d.kind ≠ .file) :
    (((f.locs.foldl (routeLoc fi f) ⟨none, none, []⟩).infos.find? (·.1 == d.ref)).map (·.2))
      = (f.locs.find? (·.path == d.ref.path)).map (·.tag) := by
  cases hfind : f.locs.find? (·.path == d.ref.path) with
  | none =>
    simp only [Option.map_none, Option.map_eq_none_iff, List.find?_eq_none]
    intro e he
    rcases C08_only_designated fi f f.locs _ e he with h | ⟨l, hl, _, h2⟩
    · simp at h
    · simp only [beq_iff_eq]
      intro heq
      have := List.find?_eq_none.mp hfind l hl
      apply this
      simp only [beq_iff_eq]
      rw [← heq, h2]
  | some l0 =>
    have hl0 := List.mem_of_find?_eq_some hfind
    have hp0 : l0.path = d.ref.path := by have := List.find?_some hfind; simpa using this
    have hatt := C08_attached fi f d hd hk f.locs ⟨none, none, []⟩ l0 hl0 hp0
    cases hf : (f.locs.foldl (routeLoc fi f) ⟨none, none, []⟩).infos.find? (·.1 == d.ref) with
    | none =>
      have := List.find?_eq_none.mp hf _ hatt
      simp at this
    | some e =>
      have he := List.mem_of_find?_eq_some hf
      have he1 : e.1 = d.ref := by have := List.find?_some hf; simpa using this
      rcases C08_only_designated fi f f.locs _ e he with h | ⟨l, hl, h1, h2⟩
      · simp at h
      · have : l.path = l0.path := by rw [hp0, ← he1, h2]
        have := loc_path_inj f.locs hnd l hl l0 hl0 this
        simp [h1, this]

end Pgs.AST

/-! ### non-vacuity on the example request of Props/C01: a field, a field of a map entry occupying a
    nested-type index, and three distractor paths (odd length, a name, a path continuing below a leaf) -/
namespace Pgs.AST
example : fileChildAt 0 exA [4, 0, 2, 1] = some ⟨0, [4, 0, 2, 1]⟩ := by simp [fileChildAt, msgChildAt, exA, Msgs.get?]
example : fileChildAt 0 exA [4, 0, 3, 0, 2, 1] = some ⟨0, [4, 0, 3, 0, 2, 1]⟩ := by simp [fileChildAt, msgChildAt, exA, Msgs.get?]
example : fileChildAt 0 exA [4, 0, 1] = none := by simp [fileChildAt]
example : fileChildAt 0 exA [4, 0, 2, 1, 1] = none := by simp [fileChildAt]
example : fileChildAt 0 exA [4, 0, 2, 1, 3, 0] = none := by simp [fileChildAt, msgChildAt, exA, Msgs.get?]
end Pgs.AST

/-! ### the syntax and package statements -/
namespace Pgs.AST

def isSyntaxLoc (l : Loc) : Bool := l.path == [12]
def isPackageLoc (l : Loc) : Bool := l.path == [2]

theorem routeLoc_package (fi : Nat) (f : FileD) (st : InfoState) (l : Loc) :
    (routeLoc fi f st l).packageInfo = if isPackageLoc l then some l.tag else st.packageInfo := by
  unfold routeLoc isPackageLoc
  by_cases h0 : l.path = []
  · simp [h0]
  simp only [h0, if_false]
  by_cases h2 : l.path = [2]
  · simp [h2, fileChildAt]
  · have hb : (l.path == [2]) = false := by simpa using h2
    simp only [hb, Bool.false_eq_true, if_false]
    by_cases h1 : l.path.length = 1
    · by_cases h12 : l.path = [12]
      · simp [h12, fileChildAt]
      · simp [h1, h12, h2]
    · simp only [h1, if_false, false_and]
      cases hc : fileChildAt fi f l.path with
      | none => rfl
      | some r => simp only; split <;> rfl

theorem routeLoc_syntax (fi : Nat) (f : FileD) (st : InfoState) (l : Loc) :
    (routeLoc fi f st l).syntaxInfo = if isSyntaxLoc l then some l.tag else st.syntaxInfo := by
  unfold routeLoc isSyntaxLoc
  by_cases h12 : l.path = [12]
  · simp [h12, fileChildAt]
  · by_cases h0 : l.path = []
    · simp [h0]
    · have hb : (l.path == [12]) = false := by simp [h12]
      simp only [h0, hb, Bool.false_eq_true, if_false]
      by_cases h1 : l.path.length = 1
      · by_cases h2 : l.path = [2]
        · simp [h2, fileChildAt]
        · simp [h1, h12, h2]
      · simp only [h1, if_false, false_and]
        cases hc : fileChildAt fi f l.path with
        | none => rfl
        | some r =>
          have hr := C08_no_other fi f _ _ hc
          have : r.path ≠ [] := by rw [hr]; exact h0
          simp [this]

/-- "the last one wins" over a fold -/
theorem fold_last {σ : Type} (get : σ → Option Nat) (step : σ → Loc → σ) (p : Loc → Bool)
    (h : ∀ s l, get (step s l) = if p l then some l.tag else get s) :
    ∀ (locs : List Loc) (s0 : σ),
      get (locs.foldl step s0) = match locs.reverse.find? p with | some l => some l.tag | none => get s0 := by
  intro locs
  induction locs with
  | nil => intro s0; rfl
  | cons l locs ih =>
    intro s0
    simp only [List.foldl_cons, ih, List.reverse_cons, List.find?_append]
    cases hf : locs.reverse.find? p with
    | some x => simp
    | none =>
      simp only [Option.none_or, List.find?_cons, List.find?_nil]
      by_cases hp : p l = true
      · simp [hp, h]
      · have : p l = false := by simpa using hp
        simp [this, h]

/-- **C08 (package statement)**: the information reported for the package statement is that of the
    (last) location whose path is `[2]`; no other location touches it. -/
theorem C08_package_info (fi : Nat) (f : FileD) :
    (f.locs.foldl (routeLoc fi f) ⟨none, none, []⟩).packageInfo =
      (f.locs.reverse.find? isPackageLoc).map (·.tag) := by
  rw [fold_last (·.packageInfo) (routeLoc fi f) isPackageLoc (routeLoc_package fi f)]
  cases f.locs.reverse.find? isPackageLoc <;> rfl

/-- **C08 (syntax statement)**: the information reported for the syntax statement is that of the
    last location whose path is `[12]`, and of no other (since fix F12 the whole-file location `[]`
    is attached to nothing; before, `file.addSourceCodeInfo` stored it in the syntax slot). -/
theorem C08_syntax_info (fi : Nat) (f : FileD) :
    (f.locs.foldl (routeLoc fi f) ⟨none, none, []⟩).syntaxInfo =
      (f.locs.reverse.find? isSyntaxLoc).map (·.tag) := by
  rw [fold_last (·.syntaxInfo) (routeLoc fi f) isSyntaxLoc (routeLoc_syntax fi f)]
  cases f.locs.reverse.find? isSyntaxLoc <;> rfl

end Pgs.AST
