import PgsVerif.Props.C03
import PgsVerif.Props.C08
import PgsVerif.Proofs.Clos
import PgsVerif.Proofs.DeclFacts
import PgsVerif.Proofs.MethodsNodup
/-!
# C04 — import relations between files are exact

File level (proved here, for every valid request):
* `Imports` — `g.depsOf fi`, the column `imports` of the compared observation — are the file's
  declared dependencies, in order, each resolved to THE file of that name (`C04_imports`,
  `C04_import_is_named_file`);
* imports point to earlier files (`C04_acyclic`), hence the fuelled recursion of
  `TransitiveImports` / `Dependents` is never cut short by its fuel (number of files);
* `TransitiveImports` lists exactly the files reachable through one or more imports, each once
  (`C04_transitive`, `C04_listed_once`), `Dependents` exactly the files that reach it
  (`C04_dependents`).

Entity level (field / oneof / message / method / service imports, unused imports): the model computes
them from the graph that C03 proves to be the declarative one; Φ_C04 states them declaratively and is
evaluated on every real AST; they are tied to the code by the correspondence check.
-/
namespace Pgs.AST

/-- declared imports of file `fi` as file indices, in declaration order -/
def specImports (w : World) (fi : Nat) : List Nat :=
  match w.files[fi]? with
  | some f => f.deps.map fun d => (declaredAs w d .file).file
  | none => []

theorem split_at_index {α} : ∀ (l : List α) (k : Nat) (a : α), l[k]? = some a →
    ∃ pre post, l = pre ++ a :: post ∧ pre.length = k := by
  intro l
  induction l with
  | nil => intro k a h; simp at h
  | cons x l ih =>
    intro k a h
    cases k with
    | zero => simp at h; exact ⟨[], l, by simp [h], rfl⟩
    | succ k =>
      simp only [List.getElem?_cons_succ] at h
      obtain ⟨pre, post, e, hl⟩ := ih k a h
      exact ⟨x :: pre, post, by simp [e], by simp [hl]⟩

/-- **C04 (imports)**: the imports of a file are its declared dependencies, in order. -/
theorem C04_imports (w : World) (hv : Valid w) (g : Graph) (hg : hydrate w = .ok g) (fi : Nat) :
    g.depsOf fi = specImports w fi := by
  obtain ⟨g', hg', hs⟩ := C01_no_failure w hv
  rw [hg] at hg'; cases hg'
  obtain ⟨d1, _, _, _⟩ := hydrate_spec w hv.keysNodup g hg (fun d hd => by rw [hs] at hd; exact List.mem_reverse.mp hd)
  unfold Graph.depsOf specImports
  rw [d1]; unfold specDeps
  have := find_idx_map (fun f : FileD => f.deps.map fun d => declaredAs w d .file) w.files 0 fi
  simp only [Nat.zero_add] at this ⊢
  rw [this]
  cases w.files[fi]? <;> simp

/-- the file declaration of the `i`-th file is found under its path -/
theorem C04_import_is_named_file (w : World) (hv : Valid w) (i : Nat) (f : FileD) (h : w.files[i]? = some f) :
    declaredAs w f.name .file = ⟨i, []⟩ := by
  obtain ⟨pre, post, e, hl⟩ := split_at_index _ _ _ h
  have hm : (⟨f.name, ⟨i, []⟩, .file⟩ : Decl) ∈ declared w := by
    unfold declared
    rw [e, declFrom_append]
    apply List.mem_append_right
    simp only [declFrom, Nat.zero_add, hl]
    apply List.mem_append_left
    simp [declFile, declFileHead]
  exact declaredAs_of_mem w hv.keysNodup _ hm

/-- **C04 (imports point to earlier files)** -/
theorem C04_acyclic (w : World) (hv : Valid w) (fi : Nat) : ∀ d ∈ specImports w fi, d < fi := by
  intro d hd
  unfold specImports at hd
  cases h : w.files[fi]? with
  | none => simp [h] at hd
  | some f =>
    simp only [h, List.mem_map] at hd
    obtain ⟨name, hname, rfl⟩ := hd
    obtain ⟨pre, post, e, hl⟩ := split_at_index _ _ _ h
    obtain ⟨decl, hdecl, hk, hkind⟩ := hv.deps pre f post e name hname
    have hm : decl ∈ declared w := by
      unfold declared; rw [e, declFrom_append]; exact List.mem_append_left _ hdecl
    have := declaredAs_of_mem w hv.keysNodup decl hm
    rw [hk, hkind] at this
    rw [this]
    have := (declFrom_file pre 0 decl hdecl).2
    omega

theorem specImports_ge (w : World) (fi : Nat) (h : w.files.length ≤ fi) : specImports w fi = [] := by
  unfold specImports
  rw [List.getElem?_eq_none h]

/-- **C04 (transitive imports)**: exactly the files reachable through one or more imports. -/
theorem C04_transitive (w : World) (hv : Valid w) (g : Graph) (hg : hydrate w = .ok g) (fi j : Nat) :
    j ∈ sortNat (transImports g w.files.length fi) ↔ ReachN (specImports w) fi j := by
  have hdeps : g.depsOf = specImports w := funext (C04_imports w hv g hg)
  rw [mem_sortNat, transImports_eq_clos, hdeps]
  constructor
  · exact clos_sound _ _ _ _
  · intro r
    by_cases hfi : fi ≤ w.files.length
    · exact clos_complete (specImports w) id (fun x y hy => C04_acyclic w hv x y hy) fi j r _ hfi
    · cases r with
      | step h => rw [specImports_ge w fi (by omega)] at h; simp at h
      | trans h _ => rw [specImports_ge w fi (by omega)] at h; simp at h

/-- **C04 (dependents)**: exactly the files that reach it through one or more imports. -/
theorem C04_dependents (w : World) (hv : Valid w) (g : Graph) (hg : hydrate w = .ok g) (fi j : Nat) :
    j ∈ sortNat (dependentsOf g w.files.length w.files.length fi) ↔ ReachN (specImports w) j fi := by
  have hdeps : g.depsOf = specImports w := funext (C04_imports w hv g hg)
  rw [mem_sortNat, dependentsOf_eq_clos]
  have hfwd : ∀ x y, y ∈ directDependents g w.files.length x → x ∈ specImports w y := by
    intro x y hy
    simp only [directDependents, List.mem_filter, List.contains_eq_mem, decide_eq_true_eq, hdeps] at hy
    exact hy.2
  have hbwd : ∀ x y, y ∈ specImports w x → x ∈ directDependents g w.files.length y := by
    intro x y hy
    simp only [directDependents, List.mem_filter, List.contains_eq_mem, decide_eq_true_eq, hdeps, List.mem_range]
    refine ⟨?_, hy⟩
    apply Nat.lt_of_not_le
    intro hge
    rw [specImports_ge w x hge] at hy
    simp at hy
  constructor
  · intro h
    exact (clos_sound _ _ _ _ h).reverse hfwd
  · intro r
    have r' := r.reverse hbwd
    refine clos_complete (directDependents g w.files.length) (fun x => w.files.length - x) ?_ fi j r' _ (Nat.sub_le _ _)
    intro x y hy
    have h1 := hfwd x y hy
    have h2 := C04_acyclic w hv y x h1
    simp only [directDependents, List.mem_filter, List.mem_range] at hy
    omega

/-- **C04 (each listed once)** -/
theorem C04_listed_once (l : List Nat) : (sortNat l).Nodup := sortNat_nodup l

/-- the model observation never reports failure on a valid request -/
theorem C04_not_failed (w : World) (hv : Valid w) : (c04Model w).failed = false := by
  obtain ⟨g, hg, _⟩ := C01_no_failure w hv
  simp [c04Model, hg]

/-! non-vacuity on the example request of Props/C01: b.proto imports a.proto -/
example : specImports exW 1 = [0] := by decide
example : ReachN (specImports exW) 1 0 := .step (by decide)

/-- **C04 (imports of a field / extension)**: computed from the declarative type of that very
    field: the file of the enum / message it references (directly, as element or as map value) when
    that is another file. -/
theorem C04_field_imports (w : World) (hv : Valid w) (g : Graph) (hg : hydrate w = .ok g) :
    ∀ x ∈ allFields w ++ allExts 0 w.files, fieldImports g x.1 = typeImports x.1.file (specType w x.2) := by
  intro x hx
  simp only [fieldImports, C03_type_of w hv g hg x hx]

end Pgs.AST

/-! ### imports of a message: the union of its fields' imports -/
namespace Pgs.AST

theorem msgFieldRefs_map {β} (r : Ref) (h : MsgHead) (F : Ref → β) :
    (msgFieldRefs r h).map F = (idx h.fields).map (fun q => F ⟨r.file, r.path ++ [2, q.1]⟩) := by
  unfold msgFieldRefs childRefs
  rw [← idx_map_fst h.fields (fun k => (⟨r.file, r.path ++ [2, k]⟩ : Ref)), List.map_map]
  rfl

/-- fields of a listed message are listed fields (re-stated here to keep C04 independent of C05) -/
theorem msgs_fields_mem' (fi : Nat) : ∀ (ms : Msgs) (p : List Nat) (tag i : Nat),
    ∀ x ∈ msgsWithRefs fi p tag i ms, x.1.file = fi ∧
      ∀ q ∈ idx x.2.fields, ((⟨fi, x.1.path ++ [2, q.1]⟩ : Ref), q.2) ∈ fieldsOfMsgs fi p tag i ms := by
  intro ms
  induction ms with
  | nil => intro p tag i x hx; simp [msgsWithRefs] at hx
  | cons h nested rest ih1 ih2 =>
    intro p tag i x hx
    simp only [msgsWithRefs, List.mem_cons, List.mem_append] at hx
    simp only [fieldsOfMsgs, List.mem_append, List.mem_map]
    rcases hx with (rfl | hx) | hx
    · exact ⟨rfl, fun q hq => .inl (.inl ⟨q, hq, rfl⟩)⟩
    · obtain ⟨a, b⟩ := ih1 _ _ _ x hx
      exact ⟨a, fun q hq => .inl (.inr (b q hq))⟩
    · obtain ⟨a, b⟩ := ih2 _ _ _ x hx
      exact ⟨a, fun q hq => .inr (b q hq)⟩

/-- **C04 (imports of a message)**: exactly the union, over its fields, of the other files that
    define the types the field references (as recorded in the compared observation: sorted,
    without duplicates). -/
theorem C04_message_imports (w : World) (hv : Valid w) (g : Graph) (hg : hydrate w = .ok g) :
    ∀ x ∈ allMsgs w,
      sortNat ((msgFieldRefs x.1 x.2).map (fieldImports g)).flatten =
      sortNat ((idx x.2.fields).map fun q => typeImports x.1.file (specType w q.2)).flatten := by
  intro x hx
  rw [msgFieldRefs_map]
  congr 2
  apply List.map_congr_left
  intro q hq
  simp only [allMsgs, List.mem_flatten, List.mem_map] at hx
  obtain ⟨l, ⟨⟨fi, f⟩, hf, rfl⟩, hx⟩ := hx
  obtain ⟨a, b⟩ := msgs_fields_mem' fi f.msgs [] 4 0 x hx
  have hm : ((⟨x.1.file, x.1.path ++ [2, q.1]⟩ : Ref), q.2) ∈ allFields w := by
    simp only [allFields, List.mem_flatten, List.mem_map]
    exact ⟨_, ⟨(fi, f), hf, rfl⟩, by rw [a]; exact b q hq⟩
  exact C04_field_imports w hv g hg _ (List.mem_append_left _ hm)

end Pgs.AST

/-! ### imports of a method -/
namespace Pgs.AST

/-- **C03/C04 (the input and output of THAT method)**: methods have pairwise distinct references, so
    asking the built graph by reference answers the declared messages that method names. -/
theorem C03_method_io (w : World) (hv : Valid w) (g : Graph) (hg : hydrate w = .ok g) :
    ∀ x ∈ specMio w, g.mio.find? (·.1 == x.1) = some x := by
  obtain ⟨g', hg', _, hm, _⟩ := C03_graph w hv
  rw [hg] at hg'; cases hg'
  intro x hx
  rw [hm]
  have hnd := (specFilesMio_nodup w w.files 0).1
  rw [specFilesMio_eq] at hnd
  exact find_self_of_nodup _ hnd x hx

/-- **C04 (imports of a method)**: the files of its input and of its output when they are other
    files, the output's only once. -/
theorem C04_method_imports (w : World) (hv : Valid w) (g : Graph) (hg : hydrate w = .ok g) :
    ∀ x ∈ specMio w, methodImports g x.1 =
      (if x.2.1.file != x.1.file then [x.2.1.file] else []) ++
      (if x.2.2.file != x.1.file && x.2.2.file != x.2.1.file then [x.2.2.file] else []) := by
  intro x hx
  obtain ⟨r, i, o⟩ := x
  simp only [methodImports, C03_method_io w hv g hg _ hx]

end Pgs.AST

/-! ### the imports of a field are "the other files defining the types it references" -/
namespace Pgs.AST

theorem mem_declFrom : ∀ (fs : List FileD) (n : Nat) (d : Decl), d ∈ declFrom n fs →
    ∃ k f, fs[k]? = some f ∧ d ∈ declFile (n + k) f := by
  intro fs
  induction fs with
  | nil => intro n d hd; simp [declFrom] at hd
  | cons f fs ih =>
    intro n d hd
    simp only [declFrom, List.mem_append] at hd
    rcases hd with hd | hd
    · exact ⟨0, f, rfl, by simpa using hd⟩
    · obtain ⟨k, f', hk, hm⟩ := ih (n+1) d hd
      have e : n + (k + 1) = n + 1 + k := by omega
      exact ⟨k+1, f', by simpa using hk, by rw [e]; exact hm⟩

/-- only the file's own declaration has kind `file` -/
def NotFile (d : Decl) : Prop := d.kind ≠ .file

theorem declEnums_notFile {fi : Nat} {sc : String} {p : List Nat} {tag : Nat} {es : List EnumD} :
    ∀ d ∈ declEnums fi sc p tag es, NotFile d := by
  intro d hd
  simp only [declEnums, List.mem_flatten, List.mem_map] at hd
  obtain ⟨l, ⟨⟨i, e⟩, _, rfl⟩, hd⟩ := hd
  simp only [declEnum, List.mem_cons, List.mem_map] at hd
  rcases hd with rfl | ⟨⟨j, v⟩, _, rfl⟩ <;> simp [NotFile]

theorem declFields_notFile {fi : Nat} {sc : String} {p : List Nat} {tag : Nat} {k : Kind} {fs : List FieldD} (hk : k ≠ .file) :
    ∀ d ∈ declFields fi sc p tag k fs, NotFile d := by
  intro d hd
  simp only [declFields, List.mem_map] at hd
  obtain ⟨⟨i, f⟩, _, rfl⟩ := hd
  exact hk

theorem declOneofs_notFile {fi : Nat} {sc : String} {p : List Nat} {os : List String} :
    ∀ d ∈ declOneofs fi sc p os, NotFile d := by
  intro d hd
  simp only [declOneofs, List.mem_map] at hd
  obtain ⟨⟨i, f⟩, _, rfl⟩ := hd
  simp [NotFile]

theorem declMsgs_notFile {fi : Nat} : ∀ (ms : Msgs) (sc : String) (p : List Nat) (tag i : Nat),
    ∀ d ∈ declMsgs fi sc p tag i ms, NotFile d := by
  intro ms
  induction ms with
  | nil => intro sc p tag i d hd; simp [declMsgs] at hd
  | cons h nested rest ih1 ih2 =>
    intro sc p tag i
    simp only [declMsgs, List.cons_append, List.forall_mem_cons, List.forall_mem_append]
    exact ⟨by simp [NotFile], ⟨⟨⟨⟨declEnums_notFile, ih1 _ _ _ _⟩, declOneofs_notFile⟩,
      declFields_notFile (by decide)⟩, declFields_notFile (by decide)⟩, ih2 _ _ _ _⟩

theorem declServices_notFile {fi : Nat} {f : FileD} : ∀ d ∈ declServices fi f, NotFile d := by
  intro d hd
  simp only [declServices, List.mem_flatten, List.mem_map] at hd
  obtain ⟨l, ⟨⟨i, s⟩, _, rfl⟩, hd⟩ := hd
  simp only [declService, List.mem_cons, List.mem_map] at hd
  rcases hd with rfl | ⟨⟨j, m⟩, _, rfl⟩ <;> simp [NotFile]

/-- no declaration carries the "no entity" reference -/
theorem decl_ne_noRef (w : World) (d : Decl) (hd : d ∈ declared w) : d.ref ≠ noRef := by
  obtain ⟨k, f, _, hm⟩ := mem_declFrom w.files 0 d hd
  intro e
  have hp : d.ref.path = [999999] := by rw [e]; rfl
  by_cases hk : d.kind = .file
  · -- the file's own declaration has the empty path; nothing else has kind `file`
    have hall : ∀ x ∈ declFile (0 + k) f, x.kind = .file → x.ref.path = [] := by
      simp only [declFile, declFileHead, List.cons_append, List.forall_mem_cons, List.forall_mem_append]
      exact ⟨fun _ => trivial, ⟨⟨fun x hx h => absurd h (declEnums_notFile x hx),
        fun x hx h => absurd h (declFields_notFile (by decide) x hx)⟩,
        fun x hx h => absurd h (declMsgs_notFile _ _ _ _ _ x hx)⟩,
        fun x hx h => absurd h (declServices_notFile x hx)⟩
    have := hall d hm hk
    rw [hp] at this; simp at this
  · have h1 := C08_designated (0 + k) f d hm hk
    rw [hp] at h1
    simp [fileChildAt] at h1

theorem imp_aux (X : Ref) (own : Nat) :
    (if ¬X = noRef ∧ ¬X.file = own then [X.file] else []) =
      (match (if X = noRef then none else some X.file) with
       | some d => if d = own then [] else [d]
       | none => []) := by
  by_cases h1 : X = noRef <;> by_cases h2 : X.file = own <;> simp [h1, h2]

/-- the declarative type's imports are exactly the Φ checker's "other files defining the types the
    field references", provided its own singular enum / message reference resolves -/
theorem typeImports_spec (w : World) (own : Nat) (fd : FieldD)
    (h14 : fd.label ≠ 3 → fd.type = 14 → declaredAs w fd.typeName .enum ≠ noRef)
    (h11 : fd.label ≠ 3 → fd.type = 11 → declaredAs w fd.typeName .msg ≠ noRef) :
    typeImports own (specType w fd) = specFieldFiles w own fd := by
  unfold specType specFieldFiles definingFile
  by_cases h3 : fd.label = 3
  · simp only [h3, if_true]
    by_cases e14 : fd.type = 14
    · have e11 : ¬ ((14 : Nat) = 11) := by decide
      simp [e14, e11, typeImports, Elem.ref]; exact imp_aux _ _
    · by_cases e11 : fd.type = 11
      · by_cases hm : isMapEntryFqn w fd.typeName = true
        · have e1114 : ¬ ((11 : Nat) = 14) := by decide
          simp only [e11, e1114, hm, if_true, if_false, decide_true, Bool.and_self]
          cases hat : w.msgAt (declaredAs w fd.typeName .msg) with
          | none => simp [typeImports, Elem.ref]
          | some hn =>
            obtain ⟨hh, n⟩ := hn
            simp only
            cases hf : hh.fields with
            | nil => simp [typeImports, Elem.ref]
            | cons k r =>
              cases r with
              | nil => simp [typeImports, Elem.ref]
              | cons v rest =>
                simp only [typeImports, specElem]
                by_cases v14 : v.type = 14
                · have : ¬ ((14 : Nat) = 11) := by decide
                  simp [v14, this, Elem.ref]; exact imp_aux _ _
                · by_cases v11 : v.type = 11
                  · have : ¬ ((11 : Nat) = 14) := by decide
                    simp [v11, this, Elem.ref]; exact imp_aux _ _
                  · simp [v14, v11, Elem.ref]
        · have e1114 : ¬ ((11 : Nat) = 14) := by decide
          simp [e11, e1114, hm, typeImports, Elem.ref]; exact imp_aux _ _
      · simp [e14, e11, typeImports, Elem.ref]
  · simp only [h3, if_false, Bool.false_and]
    by_cases e14 : fd.type = 14
    · have e11 : ¬ ((14 : Nat) = 11) := by decide
      have := h14 h3 e14
      simp [e14, e11, typeImports, this]
    · by_cases e11 : fd.type = 11
      · have e1114 : ¬ ((11 : Nat) = 14) := by decide
        have := h11 h3 e11
        simp [e11, e1114, typeImports, this]
      · simp [e14, e11, typeImports]

end Pgs.AST

namespace Pgs.AST

theorem allFields_forall {P : FieldD → Prop} (fi : Nat) : ∀ (ms : Msgs) (p : List Nat) (tag i : Nat),
    AllFields P ms → ∀ x ∈ fieldsOfMsgs fi p tag i ms, P x.2 := by
  intro ms
  induction ms with
  | nil => intro p tag i _ x hx; simp [fieldsOfMsgs] at hx
  | cons h nested rest ih1 ih2 =>
    intro p tag i ⟨a, b, c⟩ x hx
    simp only [fieldsOfMsgs, List.mem_append, List.mem_map] at hx
    rcases hx with (⟨q, hq, rfl⟩ | hx) | hx
    · exact a q.2 (List.of_mem_zip hq).2
    · exact ih1 _ _ _ b x hx
    · exact ih2 _ _ _ c x hx

/-- on a valid request every field's and extension's own type reference names a declaration -/
theorem owner_resolves (w : World) (hv : Valid w) : ∀ x ∈ allFields w ++ allExts 0 w.files,
    FieldRes w (declared w) x.2 := by
  intro x hx
  rcases List.mem_append.mp hx with hx | hx
  · simp only [allFields, List.mem_flatten, List.mem_map] at hx
    obtain ⟨l, ⟨⟨fi, f⟩, hf, rfl⟩, hx⟩ := hx
    have hfile := idx_mem _ _ _ hf
    obtain ⟨pre, post, e, hl⟩ := split_at_index _ _ _ hfile
    have := allFields_forall fi f.msgs [] 4 0 (hv.fields pre f post e) x hx
    refine this.mono ?_
    intro d hd
    unfold declared
    rw [e, show pre ++ f :: post = (pre ++ [f]) ++ post by simp, declFrom_append]
    exact List.mem_append_left _ hd
  · exact (hv.exts x hx).1

/-- **C04 (imports of a field / extension, declaratively)**: exactly the other files that define the
    types it references — its own enum / message type, or for a map field the value type of its
    entry — as the Φ checker states it. -/
theorem C04_field_files (w : World) (hv : Valid w) (g : Graph) (hg : hydrate w = .ok g) :
    ∀ x ∈ allFields w ++ allExts 0 w.files, fieldImports g x.1 = specFieldFiles w x.1.file x.2 := by
  intro x hx
  rw [C04_field_imports w hv g hg x hx]
  have hres := owner_resolves w hv x hx
  apply typeImports_spec
  · intro _ h14
    obtain ⟨d, hd, _, _, e⟩ := C03_target_declared w hv _ _ (hres.enum h14)
    rw [e]; exact decl_ne_noRef w d hd
  · intro _ h11
    obtain ⟨d, hd, hk, hkind, _⟩ := hres.msg h11
    obtain ⟨d', hd', _, _, e⟩ := C03_target_declared w hv _ _ ⟨d, hd, hk, hkind⟩
    rw [e]; exact decl_ne_noRef w d' hd'

end Pgs.AST

/-! ### imports of a oneof and of a service: unions over their members -/
namespace Pgs.AST

theorem filterMap_map_congr {α β γ : Type} (c : α → Bool) (r : α → β) (G : β → γ) (H : α → γ) :
    ∀ (l : List α), (∀ q ∈ l, c q = true → G (r q) = H q) →
      (l.filterMap (fun q => if c q = true then some (r q) else none)).map G = (l.filter c).map H := by
  intro l
  induction l with
  | nil => intro _; rfl
  | cons a l ih =>
    intro h
    have ih' := ih (fun q hq => h q (List.mem_cons_of_mem _ hq))
    by_cases hc : c a = true
    · simp only [List.filterMap_cons, hc, if_true, List.map_cons, List.filter_cons, ih', h a (List.mem_cons_self ..) hc]
    · have hc' : c a = false := by simpa using hc
      simp only [List.filterMap_cons, hc', Bool.false_eq_true, if_false, List.filter_cons, ih']

/-- **C04 (imports of a oneof)**: the union, over the fields whose `oneof_index` is that oneof, of the
    other files defining the types they reference. -/
theorem C04_oneof_imports (w : World) (hv : Valid w) (g : Graph) (hg : hydrate w = .ok g) (o : Nat) :
    ∀ x ∈ allMsgs w,
      sortNat ((oneofMembers x.1.file x.1.path x.2.fields o).map (fieldImports g)).flatten =
      sortNat (((idx x.2.fields).filter (fun q => q.2.oneofIndex == some o)).map
        fun q => specFieldFiles w x.1.file q.2).flatten := by
  intro x hx
  have hmem : ∀ q ∈ idx x.2.fields, ((⟨x.1.file, x.1.path ++ [2, q.1]⟩ : Ref), q.2) ∈ allFields w := by
    intro q hq
    simp only [allMsgs, List.mem_flatten, List.mem_map] at hx
    obtain ⟨l, ⟨⟨fi, f⟩, hf, rfl⟩, hx⟩ := hx
    obtain ⟨a, b⟩ := msgs_fields_mem' fi f.msgs [] 4 0 x hx
    simp only [allFields, List.mem_flatten, List.mem_map]
    exact ⟨_, ⟨(fi, f), hf, rfl⟩, by rw [a]; exact b q hq⟩
  have hom : oneofMembers x.1.file x.1.path x.2.fields o =
      (idx x.2.fields).filterMap (fun q => if (q.2.oneofIndex == some o) = true then some (⟨x.1.file, x.1.path ++ [2, q.1]⟩ : Ref) else none) := by
    unfold oneofMembers
    apply filterMap_congr_mem'
    intro q _
    obtain ⟨i, f⟩ := q
    by_cases h : f.oneofIndex = some o <;> simp [h]
  rw [hom]
  congr 2
  apply filterMap_map_congr
  intro q hq _
  exact C04_field_files w hv g hg _ (List.mem_append_left _ (hmem q hq))

/-- **C04 (imports of a service)**: the union of its methods' imports. -/
theorem C04_service_imports (w : World) (hv : Valid w) (g : Graph) (hg : hydrate w = .ok g)
    (fi si : Nat) (f : FileD) (s : ServiceD) (hf : w.files[fi]? = some f) (hs : f.services[si]? = some s) :
    ((List.range s.methods.length).map fun mi => methodImports g ⟨fi, [6, si, 2, mi]⟩) =
    (idx s.methods).map fun m =>
      let i := declaredAs w m.2.input .msg
      let o := declaredAs w m.2.output .msg
      (if i.file != fi then [i.file] else []) ++ (if o.file != fi && o.file != i.file then [o.file] else []) := by
  rw [← idx_map_fst s.methods (fun mi => methodImports g ⟨fi, [6, si, 2, mi]⟩)]
  apply List.map_congr_left
  intro m hm
  have hin : ((⟨fi, [6, si, 2, m.1]⟩ : Ref), declaredAs w m.2.input .msg, declaredAs w m.2.output .msg) ∈ specMio w := by
    unfold specMio
    simp only [List.mem_flatten, List.mem_map]
    refine ⟨_, ⟨(fi, f), idx_of_get _ _ _ hf, rfl⟩, ?_⟩
    simp only [List.mem_flatten, List.mem_map]
    exact ⟨_, ⟨(si, s), idx_of_get _ _ _ hs, rfl⟩, List.mem_map.mpr ⟨m, hm, rfl⟩⟩
  exact C04_method_imports w hv g hg _ hin

end Pgs.AST
