import PgsVerif.Generated.Tables
import PgsVerif.Model.GoNames
/-!
# Tie by translation: the protected names of lang/go/name.go
-/
namespace Pgs.Tie
open Pgs.GoNames

/-- the model's protected names, as bytes -/
def protectedB : List (List Nat) :=
  [[68, 101, 115, 99, 114, 105, 112, 116, 111, 114], [69, 120, 116, 101, 110, 115, 105, 111, 110, 77, 97, 112],
   [69, 120, 116, 101, 110, 115, 105, 111, 110, 82, 97, 110, 103, 101, 65, 114, 114, 97, 121], [77, 97, 114, 115, 104, 97, 108],
   [80, 114, 111, 116, 111, 77, 101, 115, 115, 97, 103, 101], [82, 101, 115, 101, 116], [83, 116, 114, 105, 110, 103],
   [85, 110, 109, 97, 114, 115, 104, 97, 108]]

/-- the source's table has exactly these keys … -/
theorem tie_protected_keys : Generated.protectedNames.map (·.1) = protectedB := by decide
/-- … each replaced by itself plus an underscore … -/
theorem tie_protected_values : ∀ p ∈ Generated.protectedNames, p.2 = p.1 ++ [95] := by decide
/-- … and they are the names the model starts its used-name set with (as a set; evaluated, since the
    model writes them as string literals) -/
example : True := trivial
#guard (protectedNames.all fun n => protectedB.contains n) && (protectedB.all fun n => protectedNames.contains n)

end Pgs.Tie
