import PgsVerif.Model.GoNames
import PgsVerif.Generated.Code_camelSteps
/-!
# Tie (translated code): the camel-casing of lang/go/camel.go

`PGGUpperCamelCase` / `camelCase` and its two byte predicates, read from the current source in order.
It is protoc-gen-go's `GoCamelCase` ported (without the dot handling, which package-qualified names
alone need), and what `PgsGo.camelAux` / `camelCase` of the model transcribe:

* the empty name stays empty; a leading `_` becomes `X`;
* an `_` followed by a lower-case letter is dropped (the letter then starts a word);
* a digit is copied;
* any other byte is copied with a lower-case letter made a capital, and the run of lower-case letters after it
  is copied as it is.

`C16_camelCase_eq_GoCamelCase` proves the model's function equal to protoc-gen-go's on every dot-free name;
the correspondence run compares the model with this code on every generated identifier.
-/
namespace Pgs.GoNames
open Pgs.GenCode

def camelStepsOf (fn : String) : List String := (camelSteps.lookup fn).getD ["<no such function>"]

theorem tie_steps_camelCase :
    camelStepsOf ".camelCase" =
      ["if s == \"\" {", "return \"\"", "}", "t = make([]byte, 0, 32)", "i = 0",
       "if s[0] == '_' {", "t = append(t, 'X')", "i++", "}",
       "for ; i < len(s); i++ {", "c = s[i]",
       "if c == '_' && i+1 < len(s) && isASCIILower(s[i+1]) {", "continue", "}",
       "if isASCIIDigit(c) {", "t = append(t, c)", "continue", "}",
       "if isASCIILower(c) {", "c ^= ' '", "}",
       "t = append(t, c)",
       "for i+1 < len(s) && isASCIILower(s[i+1]) {", "i++", "t = append(t, s[i])", "}",
       "}", "return string(t)"] := by decide

theorem tie_steps_camel_helpers :
    camelStepsOf ".PGGUpperCamelCase" = ["return pgs.Name(camelCase(n.String()))"] ∧
    camelStepsOf ".isASCIILower" = ["return 'a' <= c && c <= 'z'"] ∧
    camelStepsOf ".isASCIIDigit" = ["return '0' <= c && c <= '9'"] := by decide

end Pgs.GoNames
