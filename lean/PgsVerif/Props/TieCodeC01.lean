import PgsVerif.Model.Hydrate
import PgsVerif.Generated.Code_hydratePhases
/-!
# Tie (translated code): the order in which `hydrate*` registers what a file declares

The translator lists, for every `hydrate*` function of ast.go, in source order: how the entity's
name is built, its registration in the index (`g.add`), and every loop over a descriptor list with
the `hydrate*` function its elements are handed to.  The model's *declaration order* - the order in
which names enter the index, on which the resolution timeline of C01 / C02 / C03 rests - is
**computed from** that table (`tie_declFile`, `tie_declMsgs`): enums, then the file's extensions, then
messages, then services for a file; enums, nested types, oneofs, fields, extensions for a message;
always the entity itself first.
-/
namespace Pgs.AST
open Pgs.GenCode

def phasesOf (fn : String) : List (String × String) := (hydratePhases.lookup fn).getD []

/-- every entity is named through `fullyQualifiedName` and registered before anything it contains -/
theorem tie_register_first :
    ∀ fn ∈ ["hydrateMessage", "hydrateEnum", "hydrateService", "hydrateMethod", "hydrateEnumValue", "hydrateField", "hydrateOneOf", "hydrateExtension"],
      (phasesOf fn).take 2 = [("fqn", "fullyQualifiedName"), ("add", "")] := by decide

theorem tie_file_registers_first : (phasesOf "hydrateFile").head? = some ("add", "") := by decide

/-- each list is handed to the hydrate function of its kind -/
theorem tie_handlers :
    phasesOf "hydrateFile" = [("add", ""), ("GetDependency", "mustSeen"), ("GetEnumType", "hydrateEnum"), ("GetExtension", "hydrateExtension"),
      ("GetMessageType", "hydrateMessage"), ("GetService", "hydrateService"), ("AllMessages", "hydrateFieldType"), ("call", "hydrateSourceCodeInfo")] ∧
    (phasesOf "hydrateMessage").drop 2 = [("GetEnumType", "hydrateEnum"), ("GetNestedType", "hydrateMessage"), ("GetOneofDecl", "hydrateOneOf"),
      ("GetField", "hydrateField"), ("GetExtension", "hydrateExtension")] ∧
    (phasesOf "hydrateEnum").drop 2 = [("GetValue", "hydrateEnumValue")] ∧
    (phasesOf "hydrateService").drop 2 = [("GetMethod", "hydrateMethod")] ∧
    -- a method's input and output are resolved on the spot, after the method itself was registered
    (phasesOf "hydrateMethod").drop 2 = [("resolve", "g.mustSeen(md.GetInputType()).(Message)"), ("resolve", "g.mustSeen(md.GetOutputType()).(Message)")] := by
  decide

/-- what each loop of `hydrateFile` registers, in the model -/
def fileGroupDecl (fi : Nat) (f : FileD) : String → Option (List Decl)
  | "GetEnumType" => some (declEnums fi (fileScope f) [] 5 f.enums)
  | "GetExtension" => some (declFields fi (fileScope f) [] 7 .ext f.exts)
  | "GetMessageType" => some (declMsgs fi (fileScope f) [] 4 0 f.msgs)
  | "GetService" => some (declServices fi f)
  | _ => none          -- dependencies, field types and source info register nothing

/-- **the model's declaration order of a file is the order of `hydrateFile`'s loops** -/
theorem tie_declFile (fi : Nat) (f : FileD) :
    declFile fi f = ⟨f.name, ⟨fi, []⟩, .file⟩ :: ((phasesOf "hydrateFile").filterMap fun x => fileGroupDecl fi f x.1).flatten := by
  have h : (phasesOf "hydrateFile").map (·.1) =
      ["add", "GetDependency", "GetEnumType", "GetExtension", "GetMessageType", "GetService", "AllMessages", "call"] := by decide
  have : ((phasesOf "hydrateFile").filterMap fun x => fileGroupDecl fi f x.1) =
      ((phasesOf "hydrateFile").map (·.1)).filterMap (fileGroupDecl fi f) := by
    rw [List.filterMap_map]; rfl
  rw [this, h]
  simp [declFile, declFileHead, fileGroupDecl, List.filterMap]

/-- what each loop of `hydrateMessage` registers -/
def msgGroupDecl (fi : Nat) (fqn : String) (here : List Nat) (h : MsgHead) (nested : Msgs) : String → Option (List Decl)
  | "GetEnumType" => some (declEnums fi fqn here 4 h.enums)
  | "GetNestedType" => some (declMsgs fi fqn here 3 0 nested)
  | "GetOneofDecl" => some (declOneofs fi fqn here h.oneofs)
  | "GetField" => some (declFields fi fqn here 2 .field h.fields)
  | "GetExtension" => some (declFields fi fqn here 6 .ext h.exts)
  | _ => none

/-- **… and of a message the order of `hydrateMessage`'s loops** (oneofs before the fields that join them) -/
theorem tie_declMsgs (fi : Nat) (scope : String) (p : List Nat) (tag i : Nat) (h : MsgHead) (nested rest : Msgs) :
    declMsgs fi scope p tag i (.cons h nested rest) =
      (⟨scope ++ "." ++ h.name, ⟨fi, p ++ [tag, i]⟩, .msg⟩ ::
        ((phasesOf "hydrateMessage").filterMap fun x => msgGroupDecl fi (scope ++ "." ++ h.name) (p ++ [tag, i]) h nested x.1).flatten)
      ++ declMsgs fi scope p tag (i+1) rest := by
  have hh : (phasesOf "hydrateMessage").map (·.1) =
      ["fqn", "add", "GetEnumType", "GetNestedType", "GetOneofDecl", "GetField", "GetExtension"] := by decide
  have : ((phasesOf "hydrateMessage").filterMap fun x => msgGroupDecl fi (scope ++ "." ++ h.name) (p ++ [tag, i]) h nested x.1) =
      ((phasesOf "hydrateMessage").map (·.1)).filterMap (msgGroupDecl fi (scope ++ "." ++ h.name) (p ++ [tag, i]) h nested) := by
    rw [List.filterMap_map]; rfl
  rw [this, hh]
  simp [declMsgs, msgGroupDecl, List.filterMap]

end Pgs.AST
