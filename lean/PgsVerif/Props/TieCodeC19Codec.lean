import PgsVerif.Props.TieCodeC19
import PgsVerif.Generated.Code_parameters_Float
import PgsVerif.Generated.Code_parameters_FloatDefault
import PgsVerif.Generated.Code_parameters_SetFloat
import PgsVerif.Generated.Code_parameters_Duration
import PgsVerif.Generated.Code_parameters_DurationDefault
import PgsVerif.Generated.Code_parameters_SetDuration
/-!
# Tie (translated code): the float and duration accessors of parameters.go

`Float`, `FloatDefault`, `SetFloat`, `Duration`, `DurationDefault`, `SetDuration` are translated from the
current source; the codecs they call - `strconv.ParseFloat(s, 64)` and `strconv.FormatFloat(f, 'g', -1, 64)`,
`time.ParseDuration` and `Duration.String` - are parameters of the translation (the bit size, the
format letter and the precision the source passes are checked: any other would not be the codec).
For **every** codec whose parser reads back what its printer writes (which the correspondence run
checks of Go's own on generated values), the typed clauses of C19 hold of the translated accessors:
the getter returns what the setter of the same type stored, an unset key yields the default, and
the short getters are the `…Default` ones with the zero value.
-/
namespace Pgs.C19
open Pgs Pgs.GenCode

variable {α : Type}

/-- **float round trip through the real accessors** -/
theorem tie_Float_SetFloat (pf : Bytes → Except Bytes α) (ff : α → Bytes) (hrt : ∀ f, pf (ff f) = .ok f)
    (p : Map) (k : Bytes) (f d : α) :
    parameters_FloatDefault pf (parameters_SetFloat ff p k f) k d = .ok f := by
  simp [parameters_FloatDefault, parameters_SetFloat, get_set_same, parseFloatE, formatFloatB, hrt]

theorem tie_Float_absent (pf : Bytes → Except Bytes α) (p : Map) (k : Bytes) (d : α) (h : get p k = none) :
    parameters_FloatDefault pf p k d = .ok d := by
  simp [parameters_FloatDefault, h]

/-- a key that is present is parsed, never defaulted: a value the codec rejects is an error, not the default -/
theorem tie_Float_present (pf : Bytes → Except Bytes α) (p : Map) (k v : Bytes) (d : α) (h : get p k = some v) :
    parameters_FloatDefault pf p k d = pf v := by
  simp [parameters_FloatDefault, h, parseFloatE]

theorem tie_Float (pf : Bytes → Except Bytes α) (z : α) (p : Map) (k : Bytes) :
    parameters_Float pf z p k = parameters_FloatDefault pf p k z := rfl

/-- setting one key leaves every other key as it was -/
theorem tie_SetFloat_other (ff : α → Bytes) (p : Map) (k k' : Bytes) (f : α) (h : k' ≠ k) :
    get (parameters_SetFloat ff p k f) k' = get p k' := by
  have h' : ¬ k = k' := fun e => h e.symm
  simp [parameters_SetFloat, get_set, h']

/-- **duration round trip** -/
theorem tie_Duration_SetDuration (pd : Bytes → Except Bytes α) (fd : α → Bytes) (hrt : ∀ d, pd (fd d) = .ok d)
    (p : Map) (k : Bytes) (x d : α) :
    parameters_DurationDefault pd (parameters_SetDuration fd p k x) k d = .ok x := by
  simp [parameters_DurationDefault, parameters_SetDuration, get_set_same, hrt]

theorem tie_Duration_absent (pd : Bytes → Except Bytes α) (p : Map) (k : Bytes) (d : α) (h : get p k = none) :
    parameters_DurationDefault pd p k d = .ok d := by
  simp [parameters_DurationDefault, h]

theorem tie_Duration_present (pd : Bytes → Except Bytes α) (p : Map) (k v : Bytes) (d : α) (h : get p k = some v) :
    parameters_DurationDefault pd p k d = pd v := by
  simp [parameters_DurationDefault, h]

theorem tie_Duration (pd : Bytes → Except Bytes α) (z : α) (p : Map) (k : Bytes) :
    parameters_Duration pd z p k = parameters_DurationDefault pd p k z := rfl

/-- non-vacuity: a codec on `Nat` (decimal) satisfies the hypothesis; 1.5 s stored and read back -/
example : parameters_DurationDefault (fun s => optE (parseUint s)) (parameters_SetDuration formatNat [] [100] 15) [100] 0 = .ok 15 := by
  rfl

end Pgs.C19
