import PgsVerif.Proofs.Params
/-!
# C19 — parameters survive print/parse round trips and typed set/get

Model: `Model/Params.lean`.  Maps are association lists with distinct keys; "the same map" is
stated as equality of `get` on every key (extensional equality).
-/
namespace Pgs.C19
open Pgs

def printItems (m : Map) : List Bytes := (m.map renderItem).mergeSort leB

/-- Printing is sorted … -/
theorem C19_print_sorted (m : Map) : (printItems m).Pairwise (fun a b => leB a b = true) :=
  List.pairwise_mergeSort (le := leB) (fun a b c => leB_trans a b c) leB_total _

/-- … and deterministic: it does not depend on the order in which the entries are enumerated
    (Go's map iteration order). -/
theorem C19_print_deterministic (m1 m2 : Map) (h : m1.Perm m2) : print m1 = print m2 := by
  unfold print
  congr 1
  apply List.Perm.eq_of_pairwise (le := fun a b => leB a b = true)
  · intro a b _ _ h1 h2; exact leB_antisymm a b h1 h2
  · exact C19_print_sorted m1
  · exact C19_print_sorted m2
  · exact ((List.mergeSort_perm _ _).trans (h.map _)).trans (List.mergeSort_perm _ _).symm

/-- the items of what `print` produced, parsed back, are the entries (in sorted order) -/
theorem parseRaw_print (m : Map) (hd : printDom m = true) :
    (parseRaw (print m)).Perm m := by
  have ⟨hne, hall⟩ : m ≠ [] ∧ ∀ kv ∈ m, comma ∉ kv.1 ∧ equals ∉ kv.1 ∧ comma ∉ kv.2 := by
    simp only [printDom, Bool.and_eq_true, Bool.not_eq_true', List.all_eq_true] at hd
    refine ⟨by intro e; simp [e] at hd, ?_⟩
    intro kv hkv
    have := hd.2 kv hkv
    simpa [and_assoc] using this
  have hperm : (printItems m).Perm (m.map renderItem) := List.mergeSort_perm _ _
  have hitems_ne : printItems m ≠ [] := by
    intro e
    have := hperm.length_eq
    rw [e] at this
    simp at this
    exact hne (List.eq_nil_of_length_eq_zero this.symm)
  have hnc : ∀ x ∈ printItems m, comma ∉ x := by
    intro x hx
    obtain ⟨kv, hkv, rfl⟩ := List.mem_map.mp (hperm.mem_iff.mp hx)
    exact renderItem_no_comma kv (hall kv hkv).1 (hall kv hkv).2.2
  unfold parseRaw print
  rw [show (m.map renderItem).mergeSort leB = printItems m from rfl]
  rw [splitOn_joinWith comma (printItems m) hitems_ne hnc]
  have h1 : ((printItems m).map parseItem).Perm ((m.map renderItem).map parseItem) := hperm.map _
  refine h1.trans ?_
  rw [List.map_map]
  have : m.map (parseItem ∘ renderItem) = m := by
    conv => rhs; rw [← List.map_id m]
    apply List.map_congr_left
    intro kv hkv
    simpa using parseItem_renderItem kv (hall kv hkv).2.1
  rw [this]

/-- Parsing what was printed returns the same map, for every non-empty map whose keys contain
    neither ',' nor '=' and whose values contain no ','. -/
theorem C19_parse_print (m : Map) (hn : (m.map (·.1)).Nodup) (hd : printDom m = true) (k : Bytes) :
    get (parse (print m)) k = get m k := by
  have hp := parseRaw_print m hd
  unfold parse
  rw [get_ofList]
  have hn' : ((parseRaw (print m)).map (·.1)).Nodup := (hp.map _).nodup_iff.mpr hn
  rw [lastFor_eq_get_of_nodup _ hn']
  exact get_perm _ _ hp hn' k

/-- every parsed map lies in the stated domain and has distinct keys -/
theorem parse_in_dom (s : Bytes) : ((parse s).map (·.1)).Nodup ∧ printDom (parse s) = true := by
  obtain ⟨h1, h2, h3⟩ := foldl_set_props (parseRaw s) [] (by simp)
  refine ⟨h1, ?_⟩
  have hne : parse s ≠ [] := by
    apply h3
    left
    unfold parseRaw
    intro e
    exact splitOn_ne_nil comma s (List.map_eq_nil_iff.mp e)
  have hmem : ∀ kv ∈ parse s, comma ∉ kv.1 ∧ equals ∉ kv.1 ∧ comma ∉ kv.2 := by
    intro kv hkv
    rcases h2 kv hkv with h | h
    · simp at h
    · obtain ⟨p, hp, rfl⟩ := List.mem_map.mp h
      exact parseItem_dom p (splitOn_no_sep comma s p hp)
  simp only [printDom, Bool.and_eq_true, Bool.not_eq_true', List.all_eq_true]
  refine ⟨by cases hps : parse s with
            | nil => exact absurd hps hne
            | cons _ _ => rfl, ?_⟩
  intro kv hkv
  obtain ⟨a, b, c⟩ := hmem kv hkv
  simp [a, b, c]

/-- For every string s, parse(print(parse(s))) equals parse(s). -/
theorem C19_parse_print_parse (s : Bytes) (k : Bytes) :
    get (parse (print (parse s))) k = get (parse s) k := by
  obtain ⟨hn, hd⟩ := parse_in_dom s
  exact C19_parse_print (parse s) hn hd k

/-- Of duplicate keys the last wins: parsing `a,b` is parsing `a` overridden by parsing `b`. -/
theorem C19_last_wins (a b : Bytes) (k : Bytes) :
    get (parse (a ++ comma :: b)) k = (get (parse b) k).or (get (parse a) k) := by
  unfold parse
  simp only [get_ofList]
  unfold parseRaw
  rw [splitOn_append_general, List.map_append, lastFor_append]

/-- A key without '=' is present with an empty value, which reads as boolean true. -/
theorem C19_bare_key (p : Bytes) (h : p.contains equals = false) (hc : comma ∉ p) :
    get (parse p) p = some [] ∧ boolOf [] = some true := by
  refine ⟨?_, by decide⟩
  unfold parse
  rw [get_ofList]
  unfold parseRaw
  rw [splitOn_nosep comma p hc]
  have : parseItem p = (p, []) := by
    unfold parseItem; rw [if_neg (by rw [h]; exact Bool.false_ne_true)]
  simp [this, lastFor, get]

/-- SetUint then Uint returns the value set (every 64-bit value). -/
theorem C19_uint_roundtrip (n : Nat) (h : n < 2 ^ 64) : parseUint (formatNat n) = some n := by
  obtain ⟨h1, h2, _, _⟩ := parseNat_formatNat n
  simp [parseUint, h1, h2, h]

/-- SetInt then Int returns the value set (every 64-bit value). -/
theorem C19_int_roundtrip (i : Int) (hlo : -(2:Int)^63 ≤ i) (hhi : i < 2^63) : parseInt (formatInt i) = some i := by
  obtain ⟨h1, h2, h3, h4⟩ := parseNat_formatNat i.natAbs
  unfold formatInt
  by_cases hneg : i < 0
  · simp only [hneg, if_true]
    have hle : i.natAbs ≤ 2 ^ 63 := by omega
    simp only [parseInt, true_or, if_true, h2, if_false, h1, hle]
    congr 1
    omega
  · simp only [hneg, if_false]
    cases hf : formatNat i.natAbs with
    | nil => exact absurd hf h2
    | cons c cs =>
      have hc1 : c ≠ minus := by intro e; rw [hf] at h3; simp [e] at h3
      have hc2 : c ≠ plus := by intro e; rw [hf] at h4; simp [e] at h4
      have hlt : i.natAbs < 2 ^ 63 := by omega
      simp only [parseInt, hc1, hc2, or_self, if_false]
      rw [← hf, h1]
      simp only [h2, if_false, hlt, if_true]
      congr 1
      omega

/-- SetBool then Bool returns the value set. -/
theorem C19_bool_roundtrip (b : Bool) : boolOf (formatBool b) = some b := by
  cases b <;> decide

/-- Cloning yields an equal map that shares no state: writes through either handle are invisible
    through the other. -/
theorem C19_clone_independent (h : Heap) (r : Nat) (hr : r < h.length) (k v : Bytes) :
    let h' := (h.clone r).1
    let c := (h.clone r).2
    h'.getD c [] = h.getD r [] ∧
    (h'.setAt c k v).getD r [] = h.getD r [] ∧
    (h'.setAt r k v).getD c [] = h.getD r [] := by
  simp only [Heap.clone, Heap.setAt]
  have hrc : r ≠ h.length := by omega
  refine ⟨?_, ?_, ?_⟩
  · simp [List.getD_eq_getElem?_getD]
  · simp only [List.getD_eq_getElem?_getD, List.getElem?_modify]
    have : ¬ h.length = r := fun e => hrc e.symm
    simp [this, List.getElem?_append_left hr]
  · simp only [List.getD_eq_getElem?_getD, List.getElem?_modify]
    simp [hrc]

/-! ### non-vacuity -/
example : printDom (parse [97,61,98,44,99]) = true := by decide          -- "a=b,c"
example : parseInt (formatInt (-42)) = some (-42) := by decide
example : parseUint (formatNat 1234) = some 1234 := by decide

end Pgs.C19
