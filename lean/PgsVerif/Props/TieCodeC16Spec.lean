import PgsVerif.Props.TieCodeC16Wrapper
/-!
# What the translated `unique` computes, and that its loop needs no more rounds than it is given

`unique` (the closure of `uniqueNames`, translated as `go_unique`) appends underscores while the name - or,
for a field, `Get` + the name - is taken.  Go runs that loop until it ends; the translation (and the model)
give it `|used| + 2` rounds.  This file proves that the bound never bites and says what comes out:

* `exists_open` (pigeonhole): among `n, n_, n__, …` with at most `|used|` underscores one is not blocked.
  A blocked candidate is blocked by a key of `used` - itself or its getter (`witness`) - and different
  candidates have different witnesses (`witness_inj`): the only way two could coincide is `"Get" ++ n_i = n_(i+3)`,
  which would make a letter of `Get` an underscore (`no_get_shift`, by descent on the length of the name);
* `unique_spec`: the translated closure returns the name with the **least** number of underscores such that
  neither it nor (for a field) its getter is taken;
* `unique_takes`: afterwards that name is taken, and its getter exactly when it is a field's.
-/
namespace Pgs.GoNames
open Pgs Pgs.GenCode

/-- the test of `unique`'s loop: the name is taken, or (for a field) its getter is -/
def blocked (u : Used) (g : Bool) (n : Bytes) : Bool := u.get n || (g && u.get (getPrefix ++ n))

def FirstOpen (u : Used) (g : Bool) (n : Bytes) (k : Nat) : Prop := blocked u g (us n k) = false ∧ ∀ i < k, blocked u g (us n i) = true

theorem get_true_mem (u : Used) (x : Bytes) (h : u.get x = true) : x ∈ u.map (·.1) := by
  unfold Used.get at h
  cases hf : u.find? (·.1 == x) with
  | none => simp [hf] at h
  | some p =>
    have hm := List.mem_of_find?_eq_some hf
    have hp := List.find?_some hf
    have : p.1 = x := by simpa using hp
    exact List.mem_map.mpr ⟨p, hm, this⟩

/-- `Get` ++ n ++ i underscores is never n ++ (i+3) underscores: some letter of `Get` would have to be an underscore -/
theorem no_get_shift : ∀ (m : Nat) (n : Bytes) (i : Nat), n.length = m → getPrefix ++ n ++ List.replicate i 95 ≠ n ++ List.replicate (i + 3) 95 := by
  intro m
  induction m using Nat.strongRecOn with
  | _ m ih =>
    intro n i hl h
    match n, hl with
    | [], _ => simp [getPrefix, List.replicate_succ] at h
    | [a], _ => simp [getPrefix, List.replicate_succ] at h
    | [a, b], _ => simp [getPrefix, List.replicate_succ] at h
    | a :: b :: c :: rest, hl =>
      simp only [getPrefix, List.cons_append, List.nil_append, List.cons.injEq] at h
      obtain ⟨ha, hb, hc, ht⟩ := h
      subst ha hb hc
      have : getPrefix ++ rest ++ List.replicate i 95 = rest ++ List.replicate (i + 3) 95 := by
        simpa [getPrefix] using ht
      exact ih rest.length (by simp at hl; omega) rest i rfl this

/-- for a blocked name, a key of `u` that blocks it -/
def witness (u : Used) (n : Bytes) (i : Nat) : Bytes := if u.get (us n i) then us n i else getPrefix ++ us n i

theorem witness_mem (u : Used) (g : Bool) (n : Bytes) (i : Nat) (h : blocked u g (us n i) = true) : witness u n i ∈ u.map (·.1) := by
  unfold witness
  by_cases h1 : u.get (us n i) = true
  · simp only [h1, if_true]; exact get_true_mem u _ h1
  · simp only [h1, Bool.false_eq_true, if_false]
    have : u.get (getPrefix ++ us n i) = true := by
      simp only [blocked, Bool.or_eq_true, Bool.and_eq_true] at h
      rcases h with h | h
      · exact absurd h h1
      · exact h.2
    exact get_true_mem u _ this

theorem witness_inj (u : Used) (n : Bytes) (i j : Nat) (hij : i < j) : witness u n i ≠ witness u n j := by
  unfold witness
  intro h
  by_cases hi : u.get (us n i) = true <;> by_cases hj : u.get (us n j) = true <;>
    simp only [hi, hj, if_true, if_false, Bool.false_eq_true] at h
  · have := congrArg List.length h; simp [us] at this; omega
  · have := congrArg List.length h; simp [us, getPrefix] at this; omega
  · -- Get ++ n_i = n_j: lengths force j = i + 3, and then a letter of `Get` would be an underscore
    have hl := congrArg List.length h
    simp [us, getPrefix] at hl
    have hj3 : j = i + 3 := by omega
    subst hj3
    exact no_get_shift n.length n i rfl (by simpa [us, List.append_assoc] using h)
  · have := congrArg List.length h; simp [us, getPrefix] at this; omega

/-- pigeonhole: among `n, n_, …` with up to `|u|` underscores one is not blocked -/
theorem exists_open (u : Used) (g : Bool) (n : Bytes) : ∃ i, i ≤ u.length ∧ blocked u g (us n i) = false := by
  apply Classical.byContradiction
  intro h
  have hall : ∀ i, i ≤ u.length → blocked u g (us n i) = true := by
    intro i hi
    cases hb : blocked u g (us n i) with
    | true => rfl
    | false => exact absurd ⟨i, hi, hb⟩ h
  have hnd : ((List.range (u.length + 1)).map (witness u n)).Nodup := by
    rw [List.Nodup, List.pairwise_map]
    have hlt : List.Pairwise (· < ·) (List.range (u.length + 1)) := List.pairwise_lt_range
    exact List.Pairwise.imp (fun {a b} hab => witness_inj u n a b hab) hlt
  have hsub : (List.range (u.length + 1)).map (witness u n) ⊆ u.map (·.1) := by
    intro x hx
    obtain ⟨i, hi, rfl⟩ := List.mem_map.mp hx
    exact witness_mem u g n i (hall i (by have := List.mem_range.mp hi; omega))
  have := List.Nodup.length_le_of_subset hnd hsub
  simp at this
  omega

theorem firstOpen_of_open (u : Used) (g : Bool) (n : Bytes) : ∀ b, (∃ i, i ≤ b ∧ blocked u g (us n i) = false) → ∃ k, k ≤ b ∧ FirstOpen u g n k := by
  intro b
  induction b with
  | zero =>
    rintro ⟨i, hi, hf⟩
    have : i = 0 := by omega
    subst this
    exact ⟨0, Nat.le_refl 0, hf, fun i hi => absurd hi (Nat.not_lt_zero i)⟩
  | succ b ih =>
    rintro ⟨i, hi, hf⟩
    by_cases hex : ∃ j, j ≤ b ∧ blocked u g (us n j) = false
    · obtain ⟨k, hk, hff⟩ := ih hex
      exact ⟨k, Nat.le_succ_of_le hk, hff⟩
    · have hi' : i = b + 1 := by
        apply Classical.byContradiction
        intro hne
        exact hex ⟨i, by omega, hf⟩
      subst hi'
      refine ⟨b + 1, Nat.le_refl _, hf, ?_⟩
      intro j hj
      cases hb : blocked u g (us n j) with
      | true => rfl
      | false => exact absurd ⟨j, by omega, hb⟩ hex

theorem exists_firstOpen (u : Used) (g : Bool) (n : Bytes) : ∃ k, k ≤ u.length ∧ FirstOpen u g n k :=
  firstOpen_of_open u g n u.length (exists_open u g n)

/-- the underscore loop returns the first name that is not blocked, given one more round than underscores needed -/
theorem bump_firstOpen (u : Used) (g : Bool) : ∀ (k F : Nat) (n : Bytes), FirstOpen u g n k → k < F → bump u g F n = us n k := by
  intro k
  induction k with
  | zero =>
    intro F n h hF
    cases F with
    | zero => omega
    | succ F =>
      have hb := h.1
      rw [us_zero] at hb
      simp only [blocked] at hb
      simp only [bump, hb, Bool.false_eq_true, if_false, us_zero]
  | succ k ih =>
    intro F n h hF
    cases F with
    | zero => omega
    | succ F =>
      have hb := h.2 0 (Nat.succ_pos k)
      rw [us_zero] at hb
      simp only [blocked] at hb
      have h' : FirstOpen u g (n ++ [underscore]) k := by
        constructor
        · have := h.1; rw [← us_succ] at this; exact this
        · intro i hi; have := h.2 (i + 1) (by omega); rw [← us_succ] at this; exact this
      simp only [bump, hb, if_true]
      rw [ih F _ h' (by omega)]
      exact us_succ n k

/-- **what `unique` returns** (translated closure, with the rounds the model gives it): the name with the least number of
    underscores such that neither it nor - for a field - its getter is taken; `|used| + 2` rounds are always enough -/
theorem unique_spec (u : Used) (n : Bytes) (g : Bool) :
    ∃ k, k ≤ u.length ∧ FirstOpen u g n k ∧ (go_unique u (u.length + 2) n g).1 = us n k := by
  obtain ⟨k, hk, hfo⟩ := exists_firstOpen u g n
  refine ⟨k, hk, hfo, ?_⟩
  rw [← tie_unique]
  simp only [makeUnique]
  exact bump_firstOpen u g k _ n hfo (by omega)

/-- … and it takes that name and, for a field, its getter -/
theorem unique_takes (u : Used) (n : Bytes) (g : Bool) :
    let r := go_unique u (u.length + 2) n g
    r.2.get r.1 = true ∧ r.2.get (getPrefix ++ r.1) = g := by
  intro r
  have hr : r = makeUnique u n g := (tie_unique u n g).symm
  rw [hr]
  simp only [makeUnique, Used.set, Used.get]
  constructor
  · by_cases h : (getPrefix ++ bump u g (u.length + 2) n == bump u g (u.length + 2) n) = true
    · have := congrArg List.length (beq_iff_eq.mp h); simp [getPrefix] at this; omega
    · simp [List.find?, h]
  · simp [List.find?]
end Pgs.GoNames
