import PgsVerif.Props.C09
import PgsVerif.Props.TieCodeC09
/-!
# C09 — the theorems, restated on the translations of field.go / oneof.go / file.go

`GenCode.field_HasPresence`, `field_Required`, `oneof_IsSynthetic`, `file_Syntax` are regenerated from
the source on every run; by the tie theorems the C09 theorems hold of them.
-/
namespace Pgs.AST
open Pgs Pgs.GenCode

/-- presence as the translated `HasPresence` computes it = the declarative rule = protobuf-go's -/
theorem C09_presence_translated (f : FileD) (fd : FieldD) (isMap : Bool) (ok : FieldOK f fd) :
    field_HasPresence (fieldEnv f fd isMap) = specPresence f fd ∧ prPresence f fd = specPresence f fd := by
  rw [← tie_HasPresence]; exact C09_presence f fd ok

theorem C09_required_translated (f : FileD) (fd : FieldD) (isMap : Bool) (ok : FieldOK f fd) :
    field_Required (fieldEnv f fd isMap) = (fd.label == 2) := by
  rw [← tie_Required]; exact C09_required f fd ok

/-- a oneof is synthetic exactly when it holds one proto3-optional field, as the translated
    `IsSynthetic` computes it and as protobuf-go says -/
theorem C09_synthetic_translated (f : FileD) (h : MsgHead) (o : Nat) (isMap : Bool)
    (ok : ∀ m ∈ oneofFieldDs h o, FieldOK f m)
    (hsyn : f.syn = "" ∨ f.syn = "proto2" ∨ f.syn = "proto3") :
    oneof_IsSynthetic (oneofEnv f h o isMap) =
      (match oneofFieldDs h o with | [m] => m.proto3Optional | _ => false) := by
  rw [← tie_IsSynthetic]; exact (C09_synthetic f h o ok hsyn).1

/-- spelling proto2 out changes nothing: the translated `File.Syntax` normalises it -/
theorem C09_proto2_spelling_translated : file_Syntax (synCode "proto2") = file_Syntax (synCode "") ∧ file_Syntax (synCode "") = [] := by
  decide

end Pgs.AST
