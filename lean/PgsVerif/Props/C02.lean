import PgsVerif.Props.C01
import PgsVerif.Model.AstSem2
/-!
# C02 — lookup is the inverse of the qualified name, for every entity of every valid request

The lookup clauses of the property, on the observation the correspondence check compares with the
implementation (`c02Model`): the build does not fail, every declared entity is looked up to itself
under its key (files: path; others: fully-qualified name), a probe name no descriptor declares is
not found, a probe name that is declared returns the declaration that bears it.
(The remaining clauses of C02 — container links, inherited attributes — are fixed by `entRec`, which
reads them off containment directly; they are tied to the code by the correspondence check.)
-/
namespace Pgs.AST

theorem keysNodup_seen {w : World} (hv : Valid w) {g : Graph} (hs : g.seen = (declared w).reverse) :
    (g.seen.map (·.key)).Nodup := by
  rw [hs, List.map_reverse]; exact nodup_reverse hv.keysNodup

/-- the model observation on a valid request, spelled out -/
theorem c02Model_valid (w : World) (hv : Valid w) (ps : List String) :
    ∃ g, hydrate w = .ok g ∧ g.seen = (declared w).reverse ∧
      c02Model w ps = ⟨false, ((declared w).map (entRec w g.seen)).mergeSort entLe,
        ps.map fun n => (n, match lookup g.seen n with | some x => x.ref | none => noRef)⟩ := by
  obtain ⟨g, hg, hs⟩ := C01_no_failure w hv
  exact ⟨g, hg, hs, by simp only [c02Model, hg]; rfl⟩

/-- **C02 (never fails)** -/
theorem C02_not_failed (w : World) (hv : Valid w) (ps : List String) : (c02Model w ps).failed = false := by
  obtain ⟨g, _, _, h⟩ := c02Model_valid w hv ps
  rw [h]

/-- **C02 (lookup of a declared entity returns that entity)**: every record of the observation is the
    record of a declared entity, and its `lookup` column is its own reference. -/
theorem C02_lookup_self (w : World) (hv : Valid w) (ps : List String) :
    ∀ e ∈ (c02Model w ps).ents, ∃ d ∈ declared w, e.ref = d.ref ∧ e.lookup = d.ref := by
  obtain ⟨g, hg, hs, h⟩ := c02Model_valid w hv ps
  rw [h]
  intro e he
  simp only [List.mem_mergeSort, List.mem_map] at he
  obtain ⟨d, hd, rfl⟩ := he
  refine ⟨d, hd, rfl, ?_⟩
  have := (C02_lookup w hv g hg).1 d hd
  simp [entRec, this]

/-- every declared entity has a record (none is lost) -/
theorem C02_all_present (w : World) (hv : Valid w) (ps : List String) :
    ∀ d ∈ declared w, ∃ e ∈ (c02Model w ps).ents, e.ref = d.ref ∧ e.lookup = d.ref ∧ e.fqn = fqnOf w d := by
  obtain ⟨g, hg, hs, h⟩ := c02Model_valid w hv ps
  rw [h]
  intro d hd
  refine ⟨entRec w g.seen d, ?_, rfl, ?_, rfl⟩
  · simp only [List.mem_mergeSort, List.mem_map]; exact ⟨d, hd, rfl⟩
  · have := (C02_lookup w hv g hg).1 d hd
    simp [entRec, this]

/-- **C02 (undeclared names are not found)** -/
theorem C02_probe_absent (w : World) (hv : Valid w) (ps : List String) :
    ∀ p ∈ (c02Model w ps).probes, p.1 ∉ (declared w).map (·.key) → p.2 = noRef := by
  obtain ⟨g, hg, hs, h⟩ := c02Model_valid w hv ps
  rw [h]
  intro p hp hk
  simp only [List.mem_map] at hp
  obtain ⟨n, _, rfl⟩ := hp
  have := (C02_lookup w hv g hg).2 n hk
  simp [this]

/-- **C02 (declared names are found, and the entity returned is the one bearing the name)** -/
theorem C02_probe_present (w : World) (hv : Valid w) (ps : List String) :
    ∀ p ∈ (c02Model w ps).probes, ∀ d ∈ declared w, d.key = p.1 → p.2 = d.ref := by
  obtain ⟨g, hg, hs, h⟩ := c02Model_valid w hv ps
  rw [h]
  intro p hp d hd hk
  simp only [List.mem_map] at hp
  obtain ⟨n, _, rfl⟩ := hp
  have := (C02_lookup w hv g hg).1 d hd
  simp only at hk
  simp [← hk, this]

end Pgs.AST
