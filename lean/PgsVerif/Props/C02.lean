import PgsVerif.Model.AstSem2
namespace Pgs.AST
theorem placeholder_C02 : True := trivial
end Pgs.AST
