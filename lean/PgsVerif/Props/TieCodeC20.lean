import PgsVerif.Model.Comment
import PgsVerif.Generated.Code_commentSteps
/-!
# Tie (translated code): `C`, `C80`, `commentScanner`

The scanning loops of `splitComment` are outside the translator's subset (they are transcribed by hand
in `Model/Comment` and compared with the real code on every run).  What the translator reads from
comment.go: the steps of `C`, `C80` and `commentScanner` in source order, the marker, and the constant
taken off the requested width.  The model is written with exactly these: every token becomes one line
`marker, blank, the token's words joined by single blanks`; the split width is `wrap - 3` where 3 is the
marker plus that blank; the scanner's buffer holds the whole text (a long word cannot make it fail).
-/
namespace Pgs.C20
open Pgs.GenCode

def stepsOf (fn : String) : List String := (commentSteps.lookup fn).getD []

theorem tie_C :
    stepsOf ".C" = ["s = commentScanner(wrap, args...)", "buf = &bytes.Buffer{}", "for s.Scan() {",
      "fmt.Fprintln(buf, commentPrefix, strings.Join(strings.Fields(s.Text()), \" \"))", "}", "return buf.String()"] ∧
    stepsOf ".C80" = ["return C(80, args...)"] := by decide

theorem tie_commentScanner :
    stepsOf ".commentScanner" = ["text = fmt.Sprint(args...)", "s = bufio.NewScanner(strings.NewReader(text))",
      "s.Buffer(make([]byte, 0, len(text)+1), len(text) + 1)", "s.Split(splitComment(wrap - 3))", "return s"] := by decide

/-- what is taken off the width is the marker and the blank `Fprintln` puts after it -/
theorem tie_offset : commentWidthOffset = commentPrefix.length + 1 ∧ commentPrefix = [47, 47] := by decide

/-- the model splits at the requested width less that offset … -/
theorem tie_tokens (wrap : Int) (text : List R) :
    tokens wrap text = scanLoop (wrap - (commentWidthOffset : Nat)) (text.length + 3) text false [] := rfl

/-- … and counts a line as marker, blank, words, one blank between two words -/
theorem tie_lineLen (ws : List Bytes) : lineLen ws = commentWidthOffset + (ws.map (·.length)).sum + (ws.length - 1) := rfl

end Pgs.C20
