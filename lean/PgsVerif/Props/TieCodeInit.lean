import PgsVerif.Generated.Code_initSteps
/-!
# Tie (translated code): how a `Generator` is put together (`Init` and its options)

Read from the current generator.go / init_option.go / persister.go in order.  This is the configuration the
workflow models of C13 and C14 start from:

* `Init`: input and output default to the process's stdin / stdout, a fresh persister on the OS file system, a
  once-guarded standard workflow; **then** the options in the order given; then the debugger is made from the
  debug flag and handed to the persister;
* every option changes exactly one thing: the input, the output, the debug flag, the parameter mutators (appended, so
  several `MutateParams` accumulate in order), the persister's file system, the workflow (`BiDirectional`: again
  once-guarded, with `BiDi` set), the supported-features word.
-/
namespace Pgs.C13
open Pgs.GenCode

def initStepsOf (fn : String) : List String := (initSteps.lookup fn).getD ["<no such function>"]

set_option maxRecDepth 4000 in
theorem tie_Init :
    initStepsOf ".Init" =
      ["g = &Generator{in: os.Stdin, out: os.Stdout, persister: newPersister(), workflow: &onceWorkflow{workflow: &standardWorkflow{}}}",
       "range opts {", "opt(g)", "}",
       "g.Debugger = initDebugger(g.debug, log.New(os.Stderr, \"\", 0))", "g.persister.SetDebugger(g.Debugger)", "return g"] ∧
    initStepsOf ".newPersister" = ["return &stdPersister{fs: afero.NewOsFs()}"] ∧
    initStepsOf "stdPersister.SetDebugger" = ["p.Debugger = d"] := by decide

theorem tie_options :
    initStepsOf ".ProtocInput" = ["return func {", "g.in = r", "}"] ∧
    initStepsOf ".ProtocOutput" = ["return func {", "g.out = w", "}"] ∧
    initStepsOf ".DebugMode" = ["return func {", "g.debug = true", "}"] ∧
    initStepsOf ".DebugEnv" = ["return func {", "g.debug = os.Getenv(f) != \"\"", "}"] ∧
    initStepsOf ".MutateParams" = ["return func {", "g.paramMutators = append(g.paramMutators, pm...)", "}"] ∧
    initStepsOf ".FileSystem" = ["return func {", "g.persister.SetFS(fs)", "}"] ∧
    initStepsOf ".BiDirectional" = ["return func {", "g.workflow = &onceWorkflow{workflow: &standardWorkflow{BiDi: true}}", "}"] ∧
    initStepsOf ".SupportedFeatures" = ["return func {", "g.persister.SetSupportedFeatures(feat)", "}"] := by decide

end Pgs.C13
