import PgsVerif.Generated.Code_walkSteps
/-!
# Tie (translated code): `Walk`, the stock visitors and the leaf `accept` methods

Read from the current node.go and the entity files in order.  With `TieCodeC07` (the five container
`accept` methods, statement by statement) this is every piece of code a walk runs:

* `Walk(v, n)` is `n.accept(v)`, nothing before or after;
* `NilVisitor` answers `(nil, nil)` to every `Visit…` (the subtree is pruned, no error); `PassThroughVisitor(v)` answers
  `(v, nil)` to every `Visit…` (the walk goes on below with `v`), for all ten kinds alike;
* a package visits itself, stops on an error or a nil visitor, then hands **the visitor it was answered** to each of its
  files in order, stopping at the first error;
* the leaves (enum value, field, extension, oneof, method) are visited and have no children: whatever visitor the
  callback answers is dropped, its error is returned; a nil visitor visits nothing.
-/
namespace Pgs.C07
open Pgs.GenCode

def walkStepsOf (fn : String) : List String := (walkSteps.lookup fn).getD ["<no such function>"]

theorem tie_Walk : walkStepsOf ".Walk" = ["return n.accept(v)"] ∧ walkStepsOf ".NilVisitor" = ["return nilVisitor{}"] ∧
    walkStepsOf ".PassThroughVisitor" = ["return passVisitor{v: v}"] := by decide

/-- the nil visitor prunes everywhere, the pass-through visitor continues everywhere with the visitor it wraps -/
theorem tie_stock_visitors :
    (["Package", "File", "Message", "Enum", "EnumValue", "Field", "Extension", "OneOf", "Service", "Method"].map fun k => (walkStepsOf ("nilVisitor.Visit" ++ k), walkStepsOf ("passVisitor.Visit" ++ k)))
      = List.replicate 10 (["return nil, nil"], ["return pv.v, nil"]) := by decide

theorem tie_pkg_accept :
    walkStepsOf "pkg.accept" =
      ["if v == nil {", "return nil", "}", "if v, err = v.VisitPackage(p); err != nil || v == nil {", "return", "}",
       "range p.Files() {", "if err = f.accept(v); err != nil {", "return", "}", "}", "return"] := by decide

theorem tie_leaf_accept :
    walkStepsOf "enumVal.accept" = ["if v == nil {", "return nil", "}", "_, err = v.VisitEnumValue(ev)", "return"] ∧
    walkStepsOf "field.accept" = ["if v == nil {", "return", "}", "_, err = v.VisitField(f)", "return"] ∧
    walkStepsOf "ext.accept" = ["if v == nil {", "return", "}", "_, err = v.VisitExtension(e)", "return"] ∧
    walkStepsOf "oneof.accept" = ["if v == nil {", "return", "}", "_, err = v.VisitOneOf(o)", "return"] ∧
    walkStepsOf "method.accept" = ["if v == nil {", "return", "}", "_, err = v.VisitMethod(m)", "return"] := by decide

end Pgs.C07
