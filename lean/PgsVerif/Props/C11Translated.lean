import PgsVerif.Props.C11
import PgsVerif.Props.TieCodeC11
/-!
# C11 — the theorems, restated on the translation of `cleanGeneratorFileName`

`GenCode.cleanGeneratorFileName` is regenerated from artifact.go on every run; by
`tie_cleanGeneratorFileName` the C11 theorems hold of it verbatim.
-/
namespace Pgs.C11
open Pgs Pgs.FilePath

theorem accepted_iff (n c : Bytes) : GenCode.cleanGeneratorFileName n = .ok c ↔ cleanName n = .accepted c := by
  rw [tie_cleanGeneratorFileName]
  cases GenCode.cleanGeneratorFileName n <;> simp

theorem rejected_iff (n : Bytes) : (∃ e, GenCode.cleanGeneratorFileName n = .error e) ↔ cleanName n = .rejected := by
  rw [tie_cleanGeneratorFileName]
  cases GenCode.cleanGeneratorFileName n <;> simp

/-- (a) absolute, empty, normalising to "." or climbing out ⇒ an error is returned -/
theorem C11_rejects_translated (n : Bytes) (h : isAbs n = true ∨ n = [] ∨ isDot n = true ∨ climbs n = true) :
    ∃ e, GenCode.cleanGeneratorFileName n = .error e :=
  (rejected_iff n).mpr (C11_rejects n h)

/-- (b) an accepted name is relative, made of proper segments, denotes the same file below every
    base directory, and stays below it -/
theorem C11_accepted_normal_translated (n c : Bytes) (h : GenCode.cleanGeneratorFileName n = .ok c) :
    isAbs c = false ∧ (splitOn slash c).all properSeg = true ∧
    ∀ base : List Seg,
      denote base (splitOn slash c) = denote base (splitOn slash n) ∧
      ∃ names, names ≠ [] ∧ denote base (splitOn slash n) = names ++ base :=
  C11_accepted_normal n c ((accepted_iff n c).mp h)

/-- (c) a normalised relative name not beginning with ".." is accepted unchanged -/
theorem C11_accepts_normalised_translated (n : Bytes) (h : normalised n = true) :
    GenCode.cleanGeneratorFileName n = .ok n :=
  (accepted_iff n n).mpr (C11_accepts_normalised n h)

end Pgs.C11
