import PgsVerif.Props.C08
/-!
# C02 — the fully-qualified name is the container's name, a dot, and the own name

`fileFqnAt` / `msgFqnAt` read the qualified name of the entity at a path off the descriptors, one
containment step at a time: the name so far, a dot, the own name of the child the step selects
(a file's scope is `"." ++ package`, or empty when packageless).  The theorem: for every declaration
of every file, the key under which hydration registers it — what `FullyQualifiedName()` returns and
`Lookup` is keyed by — IS that name.
-/
namespace Pgs.AST

def msgFqnAt (fqn : String) (h : MsgHead) (nested : Msgs) : List Nat → Option String
  | [] => some fqn
  | [_] => none
  | tag :: i :: rest =>
    if tag = 2 then
      (match h.fields[i]? with
       | some f => if rest = [] then some (fqn ++ "." ++ f.name) else none
       | none => none)
    else if tag = 3 then
      match nested.get? i with
      | some (h', n') => msgFqnAt (fqn ++ "." ++ h'.name) h' n' rest
      | none => none
    else if tag = 4 then
      (match h.enums[i]? with
       | some e => (match rest with
         | [] => some (fqn ++ "." ++ e.name)
         | [2, v] => (e.values[v]?).map fun ev => fqn ++ "." ++ e.name ++ "." ++ ev.name
         | _ => none)
       | none => none)
    else if tag = 8 then
      (match h.oneofs[i]? with
       | some o => if rest = [] then some (fqn ++ "." ++ o) else none
       | none => none)
    else if tag = 6 then
      (match h.exts[i]? with
       | some x => if rest = [] then some (fqn ++ "." ++ x.name) else none
       | none => none)
    else none
termination_by p => p.length
decreasing_by all_goals simp_wf; omega

def fileFqnAt (f : FileD) (path : List Nat) : Option String :=
  let sc := fileScope f
  match path with
  | [] => some sc
  | [_] => none
  | tag :: i :: rest =>
    if tag = 4 then
      match f.msgs.get? i with
      | some (h, n) => msgFqnAt (sc ++ "." ++ h.name) h n rest
      | none => none
    else if tag = 5 then
      (match f.enums[i]? with
       | some e => (match rest with
         | [] => some (sc ++ "." ++ e.name)
         | [2, v] => (e.values[v]?).map fun ev => sc ++ "." ++ e.name ++ "." ++ ev.name
         | _ => none)
       | none => none)
    else if tag = 6 then
      (match f.services[i]? with
       | some s => (match rest with
         | [] => some (sc ++ "." ++ s.name)
         | [2, m] => (s.methods[m]?).map fun md => sc ++ "." ++ s.name ++ "." ++ md.name
         | _ => none)
       | none => none)
    else if tag = 7 then
      (match f.exts[i]? with
       | some x => if rest = [] then some (sc ++ "." ++ x.name) else none
       | none => none)
    else none

/-- a declaration below the message `(h, nested)` of name `fqn` at `here` -/
def NamedBelow (here : List Nat) (fqn : String) (h : MsgHead) (nested : Msgs) (d : Decl) : Prop :=
  ∃ rest, d.ref.path = here ++ rest ∧ msgFqnAt fqn h nested rest = some d.key

theorem enums_named (fi : Nat) (fqn : String) (here : List Nat) (h : MsgHead) (nested : Msgs) :
    ∀ d ∈ declEnums fi fqn here 4 h.enums, NamedBelow here fqn h nested d := by
  intro d hd
  simp only [declEnums, List.mem_flatten, List.mem_map] at hd
  obtain ⟨l, ⟨⟨i, e⟩, hi, rfl⟩, hd⟩ := hd
  have he := idx_mem _ _ _ hi
  simp only [declEnum, List.mem_cons, List.mem_map] at hd
  rcases hd with rfl | ⟨⟨v, ev⟩, hv, rfl⟩
  · exact ⟨[4, i], rfl, by simp [msgFqnAt, he]⟩
  · have hv' := idx_mem _ _ _ hv
    exact ⟨[4, i, 2, v], by simp, by simp [msgFqnAt, he, hv']⟩

theorem fields_named (fi : Nat) (fqn : String) (here : List Nat) (h : MsgHead) (nested : Msgs) :
    ∀ d ∈ declFields fi fqn here 2 .field h.fields, NamedBelow here fqn h nested d := by
  intro d hd
  simp only [declFields, List.mem_map] at hd
  obtain ⟨⟨i, x⟩, hi, rfl⟩ := hd
  have hx := idx_mem _ _ _ hi
  exact ⟨[2, i], rfl, by simp [msgFqnAt, hx]⟩

theorem exts_named (fi : Nat) (fqn : String) (here : List Nat) (h : MsgHead) (nested : Msgs) :
    ∀ d ∈ declFields fi fqn here 6 .ext h.exts, NamedBelow here fqn h nested d := by
  intro d hd
  simp only [declFields, List.mem_map] at hd
  obtain ⟨⟨i, x⟩, hi, rfl⟩ := hd
  have hx := idx_mem _ _ _ hi
  exact ⟨[6, i], rfl, by simp [msgFqnAt, hx]⟩

theorem oneofs_named (fi : Nat) (fqn : String) (here : List Nat) (h : MsgHead) (nested : Msgs) :
    ∀ d ∈ declOneofs fi fqn here h.oneofs, NamedBelow here fqn h nested d := by
  intro d hd
  simp only [declOneofs, List.mem_map] at hd
  obtain ⟨⟨i, x⟩, hi, rfl⟩ := hd
  have hx := idx_mem _ _ _ hi
  exact ⟨[8, i], rfl, by simp [msgFqnAt, hx]⟩

theorem msgs_named (fi : Nat) : ∀ (ms : Msgs) (sc : String) (p : List Nat) (tag i : Nat) (all : Msgs),
    (∀ k, all.get? (i + k) = ms.get? k) →
    ∀ d ∈ declMsgs fi sc p tag i ms, ∃ j h' n', all.get? j = some (h', n') ∧
      NamedBelow (p ++ [tag, j]) (sc ++ "." ++ h'.name) h' n' d := by
  intro ms
  induction ms with
  | nil => intro sc p tag i all _ d hd; simp [declMsgs] at hd
  | cons h nested rest ih1 ih2 =>
    intro sc p tag i all hall d hd
    simp only [declMsgs, List.cons_append, List.mem_cons, List.mem_append] at hd
    have hget : all.get? i = some (h, nested) := by have := hall 0; simpa [Msgs.get?] using this
    rcases hd with rfl | (((((hd | hd) | hd) | hd) | hd) | hd)
    · exact ⟨i, h, nested, hget, [], by simp, by simp [msgFqnAt]⟩
    · exact ⟨i, h, nested, hget, enums_named fi _ _ h nested d hd⟩
    · obtain ⟨j, h2, n2, hg2, rest2, hp2, hr2⟩ := ih1 _ (p ++ [tag, i]) 3 0 nested (fun k => by simp) d hd
      refine ⟨i, h, nested, hget, 3 :: j :: rest2, by simp [hp2], ?_⟩
      rw [msgFqnAt]
      simp [hg2, hr2]
    · exact ⟨i, h, nested, hget, oneofs_named fi _ _ h nested d hd⟩
    · exact ⟨i, h, nested, hget, fields_named fi _ _ h nested d hd⟩
    · exact ⟨i, h, nested, hget, exts_named fi _ _ h nested d hd⟩
    · exact ih2 sc p tag (i+1) all (fun k => by
        have := hall (k+1)
        simp only [Msgs.get?] at this
        rw [← this]; congr 1; omega) d hd

/-- **C02 (qualified names)**: the key of every declaration other than the file is the name read
    off the descriptors along its path: container's name, a dot, own name, at every step. -/
theorem C02_fqn (fi : Nat) (f : FileD) : ∀ d ∈ declFile fi f, d.kind ≠ .file → fileFqnAt f d.ref.path = some d.key := by
  intro d hd hk
  simp only [declFile, declFileHead, declServices, List.cons_append, List.mem_cons, List.mem_append,
    List.mem_flatten, List.mem_map] at hd
  rcases hd with rfl | (((hd | hd) | hd) | ⟨l, ⟨⟨i, s⟩, hi, rfl⟩, hd⟩)
  · exact absurd rfl hk
  · simp only [declEnums, List.mem_flatten, List.mem_map] at hd
    obtain ⟨l, ⟨⟨i, e⟩, hi, rfl⟩, hd⟩ := hd
    have he := idx_mem _ _ _ hi
    simp only [declEnum, List.mem_cons, List.mem_map] at hd
    rcases hd with rfl | ⟨⟨v, ev⟩, hv, rfl⟩
    · simp [fileFqnAt, he]
    · have hv' := idx_mem _ _ _ hv
      simp [fileFqnAt, he, hv']
  · simp only [declFields, List.mem_map] at hd
    obtain ⟨⟨i, x⟩, hi, rfl⟩ := hd
    have hx := idx_mem _ _ _ hi
    simp [fileFqnAt, hx]
  · obtain ⟨j, h', n', hg, rest, hp, hr⟩ := msgs_named fi f.msgs _ [] 4 0 f.msgs (fun k => by simp) d hd
    have hpath : d.ref.path = 4 :: j :: rest := by simpa using hp
    rw [hpath]
    simp only [fileFqnAt, hg]
    simpa using hr
  · have hs := idx_mem _ _ _ hi
    simp only [declService, List.mem_cons, List.mem_map] at hd
    rcases hd with rfl | ⟨⟨m, em⟩, hm, rfl⟩
    · simp [fileFqnAt, hs]
    · have hm' := idx_mem _ _ _ hm
      simp [fileFqnAt, hs, hm']

/-- a file's own qualified name is `"." ++ package`, or empty when packageless -/
theorem C02_file_fqn (f : FileD) : fileFqnAt f [] = some (if f.pkg = "" then "" else "." ++ f.pkg) := rfl

/-! non-vacuity on the example request of Props/C01 -/
example : fileFqnAt exA [4, 0, 3, 0, 2, 1] = some ".p.M.MEntry.value" := by simp [fileFqnAt, msgFqnAt, exA, Msgs.get?, fileScope]
example : fileFqnAt exA [5, 0, 2, 0] = some ".p.E.Z" := by simp [fileFqnAt, exA, fileScope]

end Pgs.AST

/-! ### the container of every entity is itself a declared entity -/
namespace Pgs.AST

theorem parent_append_two (fi : Nat) (p : List Nat) (a b : Nat) : (⟨fi, p ++ [a, b]⟩ : Ref).parent = ⟨fi, p⟩ := by
  simp [Ref.parent]

theorem parent_append_four (fi : Nat) (p : List Nat) (a b c d : Nat) : (⟨fi, p ++ [a, b, c, d]⟩ : Ref).parent = ⟨fi, p ++ [a, b]⟩ := by
  have : p ++ [a, b, c, d] = (p ++ [a, b]) ++ [c, d] := by simp
  rw [this, parent_append_two]

/-- inside a sibling list of messages below the container `⟨fi, p⟩`, the container of every
    declaration is that container or a declaration of the same list -/
theorem msgs_parent (fi : Nat) : ∀ (ms : Msgs) (sc : String) (p : List Nat) (tag i : Nat),
    ∀ d ∈ declMsgs fi sc p tag i ms,
      d.ref.parent = ⟨fi, p⟩ ∨ d.ref.parent ∈ (declMsgs fi sc p tag i ms).map (·.ref) := by
  intro ms
  induction ms with
  | nil => intro sc p tag i d hd; simp [declMsgs] at hd
  | cons h nested rest ih1 ih2 =>
    intro sc p tag i d hd
    have hself : (⟨fi, p ++ [tag, i]⟩ : Ref) ∈ (declMsgs fi sc p tag i (.cons h nested rest)).map (·.ref) := by
      simp [declMsgs]
    simp only [declMsgs, List.cons_append, List.mem_cons, List.mem_append] at hd
    rcases hd with rfl | (((((hd | hd) | hd) | hd) | hd) | hd)
    · exact .inl (parent_append_two fi p tag i)
    · -- enums of this message and their values
      right
      simp only [declEnums, List.mem_flatten, List.mem_map] at hd
      obtain ⟨l, ⟨⟨k, e⟩, hk, rfl⟩, hd⟩ := hd
      simp only [declEnum, List.mem_cons, List.mem_map] at hd
      rcases hd with rfl | ⟨⟨v, ev⟩, hv, rfl⟩
      · rw [parent_append_two]; exact hself
      · have : (⟨fi, p ++ [tag, i] ++ [4, k] ++ [2, v]⟩ : Ref).parent = ⟨fi, p ++ [tag, i] ++ [4, k]⟩ := parent_append_two ..
        rw [this]
        simp only [declMsgs, List.cons_append, List.map_cons, List.map_append, List.mem_cons, List.mem_append, List.mem_map]
        right; left; left; left; left; left
        refine ⟨⟨(sc ++ "." ++ h.name) ++ "." ++ e.name, ⟨fi, p ++ [tag, i] ++ [4, k]⟩, .enum⟩, ?_, rfl⟩
        simp only [declEnums, List.mem_flatten, List.mem_map]
        exact ⟨_, ⟨(k, e), hk, rfl⟩, by simp [declEnum]⟩
    · -- below a nested message
      right
      rcases ih1 _ (p ++ [tag, i]) 3 0 d hd with h0 | h0
      · rw [h0]; exact hself
      · simp only [declMsgs, List.cons_append, List.map_cons, List.map_append, List.mem_cons, List.mem_append]
        right; left; left; left; left; right
        exact h0
    · right
      simp only [declOneofs, List.mem_map] at hd
      obtain ⟨⟨k, x⟩, _, rfl⟩ := hd
      rw [parent_append_two]; exact hself
    · right
      simp only [declFields, List.mem_map] at hd
      obtain ⟨⟨k, x⟩, _, rfl⟩ := hd
      rw [parent_append_two]; exact hself
    · right
      simp only [declFields, List.mem_map] at hd
      obtain ⟨⟨k, x⟩, _, rfl⟩ := hd
      rw [parent_append_two]; exact hself
    · rcases ih2 sc p tag (i+1) d hd with h0 | h0
      · exact .inl h0
      · right
        simp only [declMsgs, List.cons_append, List.map_cons, List.map_append, List.mem_cons, List.mem_append]
        right; right
        exact h0

/-- **C02 (containers)**: the container link of every declaration other than the file — the model's
    `parent` column, `d.ref.parent` — points to a declaration of the same file: the file itself, the
    message / enum / service that declares it. -/
theorem C02_container_declared (fi : Nat) (f : FileD) : ∀ d ∈ declFile fi f, d.kind ≠ .file →
    d.ref.parent ∈ (declFile fi f).map (·.ref) := by
  intro d hd hk
  have hfile : (⟨fi, []⟩ : Ref) ∈ (declFile fi f).map (·.ref) := by simp [declFile, declFileHead]
  simp only [declFile, declFileHead, declServices, List.cons_append, List.mem_cons, List.mem_append,
    List.mem_flatten, List.mem_map] at hd
  rcases hd with rfl | (((hd | hd) | hd) | ⟨l, ⟨⟨i, s⟩, hi, rfl⟩, hd⟩)
  · exact absurd rfl hk
  · simp only [declEnums, List.mem_flatten, List.mem_map] at hd
    obtain ⟨l, ⟨⟨k, e⟩, hk', rfl⟩, hd⟩ := hd
    simp only [declEnum, List.mem_cons, List.mem_map] at hd
    rcases hd with rfl | ⟨⟨v, ev⟩, hv, rfl⟩
    · have : (⟨fi, [] ++ [5, k]⟩ : Ref).parent = ⟨fi, []⟩ := parent_append_two ..
      rw [this]; exact hfile
    · have : (⟨fi, [] ++ [5, k] ++ [2, v]⟩ : Ref).parent = ⟨fi, [] ++ [5, k]⟩ := parent_append_two ..
      rw [this]
      simp only [declFile, declFileHead, List.cons_append, List.map_cons, List.map_append, List.mem_cons, List.mem_append, List.mem_map]
      right; left; left; left
      refine ⟨⟨fileScope f ++ "." ++ e.name, ⟨fi, [] ++ [5, k]⟩, .enum⟩, ?_, rfl⟩
      simp only [declEnums, List.mem_flatten, List.mem_map]
      exact ⟨_, ⟨(k, e), hk', rfl⟩, by simp [declEnum]⟩
  · simp only [declFields, List.mem_map] at hd
    obtain ⟨⟨k, x⟩, _, rfl⟩ := hd
    have : (⟨fi, [] ++ [7, k]⟩ : Ref).parent = ⟨fi, []⟩ := parent_append_two ..
    rw [this]; exact hfile
  · rcases msgs_parent fi f.msgs _ [] 4 0 d hd with h0 | h0
    · rw [h0]; exact hfile
    · simp only [declFile, declFileHead, List.cons_append, List.map_cons, List.map_append, List.mem_cons, List.mem_append]
      right; left; right
      exact h0
  · simp only [declService, List.mem_cons, List.mem_map] at hd
    rcases hd with rfl | ⟨⟨m, em⟩, hm, rfl⟩
    · have : (⟨fi, [6, i]⟩ : Ref).parent = ⟨fi, []⟩ := parent_append_two fi [] 6 i
      rw [this]; exact hfile
    · have : (⟨fi, [6, i, 2, m]⟩ : Ref).parent = ⟨fi, [6, i]⟩ := parent_append_four fi [] 6 i 2 m
      rw [this]
      simp only [declFile, declServices, List.map_append, List.mem_append, List.mem_map, List.mem_flatten]
      right
      refine ⟨⟨fileScope f ++ "." ++ s.name, ⟨fi, [6, i]⟩, .service⟩, ⟨_, ⟨(i, s), hi, rfl⟩, by simp [declService]⟩, rfl⟩

end Pgs.AST
