import PgsVerif.Generated.Tables
/-!
# Tie by translation: proto type / label / syntax constants (proto.go)

The model reads `FieldD.type` and `FieldD.label` as the descriptor's own numbers and tests them
against the literals `11` (message), `14` (enum), `10` (group), `3` (repeated), `2` (required), and
`FileD.syn` against `"proto3"` / `""`.  These are the values the library's constants wrap.
-/
namespace Pgs.Tie

def expectedProtoTypes : List (String × Nat) :=
  [("BoolT", 8), ("BytesT", 12), ("DoubleT", 1), ("EnumT", 14), ("Fixed32T", 7), ("Fixed64T", 6), ("FloatT", 2),
   ("GroupT", 10), ("Int32T", 5), ("Int64T", 3), ("MessageT", 11), ("SFixed32", 15), ("SFixed64", 16), ("SInt32", 17),
   ("SInt64", 18), ("StringT", 9), ("UInt32T", 13), ("UInt64T", 4)]

theorem tie_protoTypes : Generated.protoTypes = expectedProtoTypes := rfl
theorem tie_protoLabels : Generated.protoLabels = [("Optional", 1), ("Repeated", 3), ("Required", 2)] := rfl
theorem tie_syntax : Generated.syntaxProto2 = [] ∧ Generated.syntaxProto3 = [112, 114, 111, 116, 111, 51] := ⟨rfl, rfl⟩

end Pgs.Tie
