import PgsVerif.Model.Persist
import PgsVerif.Props.C10
import PgsVerif.Generated.Code_persister_postProcess
/-!
# Tie (translated code): `postProcess` of persister.go

The loop over the registered processors is translated from the current source as a fold that stops
at the first error (`p.CheckErr` ends the run): a processor is asked only when it matches the
artifact, it is fed what the previous matching one produced, and what the last one hands back -
whatever that is, nothing included - is the content.  `tie_postProcess` proves the model's
`postProcess`, which every persist theorem (C10, C11, C12, C14) goes through, equal to it.
-/
namespace Pgs.Persist
open Pgs Pgs.GenCode

theorem tie_postProcess_fold (kind : Nat) : ∀ (procs : List Proc) (b : Bytes),
    List.foldlM (fun b (pp : Proc) => if pp.kinds.contains kind then
        (if pp.fails then (Except.error Cause.postProcess) else (Except.ok (pp.apply b))) else (Except.ok b)) b procs
      = postProcess procs kind b := by
  intro procs
  induction procs with
  | nil => intro b; rfl
  | cons p ps ih =>
    intro b
    simp only [List.foldlM_cons, postProcess]
    cases hk : p.kinds.contains kind <;> cases hf : p.fails <;>
      simp only [hk, hf, if_true, if_false, Bool.false_eq_true, bind, Except.bind] <;> first | exact ih _ | rfl

/-- **`postProcess`** -/
theorem tie_postProcess (procs : List Proc) (kind : Nat) (b : Bytes) :
    postProcess procs kind b = persister_postProcess procs kind b := by
  unfold persister_postProcess
  simp only [id, tie_postProcess_fold]
  cases postProcess procs kind b <;> rfl

/-- **C10's post-processing clause on the translated function**: processors are applied to precisely the artifacts they match, in
    registration order, each fed what the one before handed back -/
theorem C10_postprocess_order_translated (p : Proc) (ps : List Proc) (k : Nat) (b : Bytes) (hp : p.fails = false) :
    persister_postProcess (p :: ps) k b =
      if p.kinds.contains k then persister_postProcess ps k (p.apply b) else persister_postProcess ps k b := by
  simp only [← tie_postProcess]
  exact C10_postprocess_order p ps k b hp

/-- … and a failing one that matches ends the run, whatever follows -/
theorem C10_postprocess_fail_translated (p : Proc) (ps : List Proc) (k : Nat) (b : Bytes) (hp : p.fails = true) (hk : p.kinds.contains k = true) :
    persister_postProcess (p :: ps) k b = .error .postProcess := by
  rw [← tie_postProcess]
  simp only [postProcess, hk, hp, if_true]

/-- non-vacuity: a replacing processor, then an appending one; a failing one stops the run -/
example : persister_postProcess [⟨[0], [75], false, true⟩, ⟨[0, 1], [33], false, false⟩, ⟨[1], [63], true, false⟩] 0 [97, 98]
    = .ok [75, 33] := by rfl
example : persister_postProcess [⟨[0], [], false, true⟩, ⟨[0], [63], true, false⟩] 0 [97] = .error .postProcess := by rfl

end Pgs.Persist
