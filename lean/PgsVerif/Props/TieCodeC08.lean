import PgsVerif.Model.AstSem2
import PgsVerif.Generated.Tables
import PgsVerif.Generated.Code_childAtPaths
/-!
# Tie (translated code): the `childAtPath` chain

The translator lists, for `childAtPath` of file, message, enum and service, the guards on the length
of the path and, per SourceCodeInfo path constant, the child list whose element `path[1]` the rest of
the path is handed to.  Resolved through the constants of source_code_info.go (`Generated.pathConsts`,
themselves read from the source), this is the dispatch the model's `fileChildAt` / `msgChildAt`
transcribe: the descriptor field number of each kind of child and - for nested types - the list that
keeps *descriptor indices* (`preservedMsgs`, map entries included), not the list of ordinary messages.
-/
namespace Pgs.AST
open Pgs.GenCode

/-- (descriptor field number, child list) in the order of the cases -/
def dispatchOf (recv : String) : List (Nat × String) :=
  ((childAtDispatch.lookup recv).getD []).filterMap fun (c, l) => (Generated.pathConsts.lookup c).map (·, l)

/-- every case names a known path constant -/
theorem tie_dispatch_known :
    ∀ recv ∈ ["file", "msg", "enum", "service"],
      (dispatchOf recv).length = ((childAtDispatch.lookup recv).getD []).length := by decide

/-- **the dispatch tables**: which descriptor field selects which list of children -/
theorem tie_dispatch :
    dispatchOf "file" = [(4, "msgs"), (5, "enums"), (6, "srvs"), (7, "defExts")] ∧
    dispatchOf "msg" = [(2, "fields"), (3, "preservedMsgs"), (4, "enums"), (8, "oneofs"), (6, "defExts")] ∧
    dispatchOf "enum" = [(2, "vals")] ∧
    dispatchOf "service" = [(2, "methods")] := by decide

/-- **the shape of every method**: the empty path designates the entity itself, a path of odd length
    nothing, an unknown field number nothing, and a child is asked with the path two elements shorter -/
theorem tie_childAt_shape :
    (childAtShape.lookup "file").getD [] =
      [("len(path) == 0", "return f"), ("len(path)%2 == 1", "return nil")] ++ List.replicate 4 ("path[0] == <constant>", "child") ++
      [("path[0] == default", "return nil"), ("return", "child.childAtPath(path[2:])")] ∧
    (childAtShape.lookup "msg").getD [] =
      [("len(path) == 0", "return m"), ("len(path)%2 != 0", "return nil")] ++ List.replicate 5 ("path[0] == <constant>", "child") ++
      [("path[0] == default", "return nil"), ("return", "child.childAtPath(path[2:])")] ∧
    (childAtShape.lookup "enum").getD [] =
      [("len(path) == 0", "return e"), ("len(path)%2 != 0", "return nil"), ("path[0] == <constant>", "descend"), ("default", "return nil")] ∧
    (childAtShape.lookup "service").getD [] =
      [("len(path) == 0", "return s"), ("len(path)%2 != 0", "return nil"), ("path[0] == <constant>", "descend"), ("default", "return nil")] := by
  decide

/-- the model dispatches on exactly these field numbers: a path whose first element is none of them
    designates nothing -/
theorem tie_file_unknown_tag (fi : Nat) (f : FileD) (tag i : Nat) (rest : List Nat)
    (h : tag ∉ (dispatchOf "file").map (·.1)) : fileChildAt fi f (tag :: i :: rest) = none := by
  have h' : tag ∉ [4, 5, 6, 7] := by
    have := tie_dispatch.1
    rw [this] at h; simpa using h
  simp only [List.mem_cons, List.not_mem_nil, or_false, not_or] at h'
  obtain ⟨h4, h5, h6, h7⟩ := h'
  unfold fileChildAt
  simp [h4, h5, h6, h7]

end Pgs.AST
