import PgsVerif.Props.TieCodeC16
import PgsVerif.Props.C16
import PgsVerif.Generated.Code_go_uniqueNames
/-!
# Tie (translated code): `uniqueNames` of lang/go/name.go, whole

Besides its closure `unique` (`TieCodeC16.tie_unique`) the function itself is translated: the loop that
takes the protected names, the resetting of the two result maps, and the loop over the message's fields in
declaration order - each field named by `unique(camel(name), true)`, and its oneof named by
`unique(camel(oneof name), false)` **at the moment its first member is met** (`go_uniqueNames_step2`).

`tie_uniqueNames` proves the model's `uniqueNames` - the function `C16_unique_names` and
`C16_file_names` speak of - equal to it: the same names, field by field and oneof by oneof, for every
message.  Reading conventions (the translator's dictionary, trusted): the two result maps are keyed by
fully-qualified names, which are distinct, and are rendered as the record of what was stored in order;
what the loop reads of a field is `FieldN` (`toFieldN`: its name, whether it is the first member of
its oneof, that oneof's name); the protected names are taken in some order (Go's map order) - every one
gets `true`, so the order is immaterial and the tie fixes one; the underscore loop of `unique` gets
|used| + 2 rounds, the bound the model uses.
-/
namespace Pgs.GoNames
open Pgs Pgs.AST Pgs.GenCode

/-- what the translated loop reads of field `i` of a message: its name and - when it is the first member of its oneof - that oneof's name -/
def toFieldN (fields : List FieldD) (oneofs : List String) (p : Nat × FieldD) : FieldN :=
  let firstMember (o : Nat) : Option Nat := (idx fields).findSome? fun (i, f) => if f.oneofIndex == some o then some i else none
  { fqn := [], name := bytesOfString p.2.name,
    firstOfOneof := match p.2.oneofIndex with | some o => firstMember o == some p.1 | none => false,
    oneofFqn := [], oneofName := match p.2.oneofIndex with | some o => bytesOfString (oneofs.getD o "") | none => [] }

/-- the protected names are taken before anything else (the Go map is ranged over in no particular order; every key gets `true`) -/
theorem init_used {β γ : Type} (f : Used × β × γ → Bytes → Used × β × γ) (hf : ∀ u a b n, f (u, a, b) n = (Used.set u n true, a, b)) (a : β) (b : γ) :
    ∀ l : List Bytes, List.foldl f (([] : Used), a, b) l.reverse = (l.map (fun n => (n, true)), a, b) := by
  intro l
  rw [List.foldl_reverse]
  induction l with
  | nil => rfl
  | cons x xs ih => rw [List.foldr_cons, ih, hf]; rfl

theorem foldl_sim {α σ τ : Type} (R : σ → τ → Prop) (f : σ → α → σ) (g : τ → α → τ)
    (h : ∀ s t x, R s t → R (f s x) (g t x)) : ∀ (l : List α) s t, R s t → R (l.foldl f s) (l.foldl g t) := by
  intro l
  induction l with
  | nil => intro s t hr; exact hr
  | cons x xs ih => intro s t hr; exact ih _ _ (h s t x hr)

/-- the model's state and the translated loop's: the same names taken, the same field names in order, the same oneof names in order -/
def URel (s : Used × List Bytes × List (Nat × Bytes)) (t : Used × List (Bytes × Bytes) × List (Bytes × Bytes)) : Prop :=
  s.1 = t.1 ∧ s.2.1 = t.2.1.map (·.2) ∧ s.2.2.map (·.2) = t.2.2.map (·.2)

/-- one round of the model's loop, by name -/
def mstep (fields : List FieldD) (oneofs : List String) (acc : Used × List Bytes × List (Nat × Bytes)) (p : Nat × FieldD) :
    Used × List Bytes × List (Nat × Bytes) :=
  let firstMember (o : Nat) : Option Nat := (idx fields).findSome? fun (i, f) => if f.oneofIndex == some o then some i else none
  let (u, fs, os) := acc
  let (i, f) := p
  let (fname, u1) := makeUnique u (PgsGo.camelCase (bytesOfString f.name)) true
  match f.oneofIndex with
  | some o =>
    if firstMember o == some i then
      let (oname, u2) := makeUnique u1 (PgsGo.camelCase (bytesOfString (oneofs.getD o ""))) false
      (u2, fs ++ [fname], os ++ [(o, oname)])
    else (u1, fs ++ [fname], os)
  | none => (u1, fs ++ [fname], os)

theorem uniqueNames_mstep (fields : List FieldD) (oneofs : List String) :
    uniqueNames PgsGo.camelCase fields oneofs =
      (((idx fields).foldl (mstep fields oneofs) (protectedNames.map (fun n => (n, true)), [], [])).2.1,
       ((idx fields).foldl (mstep fields oneofs) (protectedNames.map (fun n => (n, true)), [], [])).2.2) := rfl

theorem step_sim (fields : List FieldD) (oneofs : List String) (pk : List Bytes) (fl : List FieldN) (s t) (x : Nat × FieldD) (h : URel s t) :
    URel (mstep fields oneofs s x) (go_uniqueNames_step2 pk fl t (toFieldN fields oneofs x)) := by
  obtain ⟨u, fs, os⟩ := s
  obtain ⟨u', fm, om⟩ := t
  obtain ⟨i, f⟩ := x
  obtain ⟨h1, h2, h3⟩ := h
  simp only at h1 h2 h3
  subst h1
  simp only [mstep, go_uniqueNames_step2, toFieldN, ← tie_unique, assocPut]
  cases ho : f.oneofIndex with
  | none => simp [URel, h2, h3]
  | some o =>
    simp only []
    split <;> simp_all [URel]

/-- **`uniqueNames`**: the names the model assigns are the ones the translated function stores, field by field and oneof by oneof -/
theorem tie_uniqueNames (fields : List FieldD) (oneofs : List String) :
    let r := go_uniqueNames protectedNames.reverse ((idx fields).map (toFieldN fields oneofs))
    (uniqueNames PgsGo.camelCase fields oneofs).1 = r.1.map (·.2) ∧
    ((uniqueNames PgsGo.camelCase fields oneofs).2).map (·.2) = r.2.map (·.2) := by
  intro r
  have hr : r = go_uniqueNames protectedNames.reverse ((idx fields).map (toFieldN fields oneofs)) := rfl
  unfold go_uniqueNames at hr
  dsimp only at hr
  rw [init_used _ (by intros; rfl)] at hr
  simp only [List.foldl_map] at hr
  rw [uniqueNames_mstep, hr]
  have key := foldl_sim URel (mstep fields oneofs)
    (fun t x => go_uniqueNames_step2 protectedNames.reverse ((idx fields).map (toFieldN fields oneofs)) t (toFieldN fields oneofs x))
    (fun s t x h => step_sim fields oneofs _ _ s t x h) (idx fields)
    (protectedNames.map (fun n => (n, true)), [], []) (protectedNames.map (fun n => (n, true)), [], []) ⟨rfl, rfl, rfl⟩
  exact ⟨key.2.1, key.2.2⟩
/-- **C16 on the translated function**: the names the translated `uniqueNames` stores for a message's fields and oneofs are the
    ones protoc-gen-go's algorithm (over its own camel-casing) assigns, whenever the two camel-casings agree on the message's
    identifiers (they do on every dot-free identifier: `C16_camelCase_eq_GoCamelCase`) -/
theorem C16_unique_names_translated (fields : List FieldD) (oneofs : List String)
    (h : ∀ s : String, PgsGo.camelCase (bytesOfString s) = Protogen.goCamelCase (bytesOfString s)) :
    let r := go_uniqueNames protectedNames.reverse ((idx fields).map (toFieldN fields oneofs))
    r.1.map (·.2) = (uniqueNames Protogen.goCamelCase fields oneofs).1 ∧
    r.2.map (·.2) = ((uniqueNames Protogen.goCamelCase fields oneofs).2).map (·.2) := by
  intro r
  have ht := tie_uniqueNames fields oneofs
  have hc := C16_unique_names fields oneofs h
  exact ⟨by rw [← hc]; exact ht.1.symm, by rw [← hc]; exact ht.2.symm⟩

end Pgs.GoNames
