import PgsVerif.Model.Bytes
/-! Lemmas about `splitOn` / `joinWith` (helper lemmas; property theorems live in `Props/`). -/
namespace Pgs

theorem splitOn_ne_nil (sep : Nat) (s : Bytes) : splitOn sep s ≠ [] := by
  induction s with
  | nil => simp [splitOn]
  | cons c cs ih =>
    unfold splitOn
    split
    · simp
    · split
      · simp
      · simp

theorem splitOn_cons_sep (sep : Nat) (cs : Bytes) : splitOn sep (sep :: cs) = [] :: splitOn sep cs := by
  simp [splitOn]

theorem splitOn_cons_ne (sep c : Nat) (cs : Bytes) (h : c ≠ sep) :
    ∃ s ss, splitOn sep cs = s :: ss ∧ splitOn sep (c :: cs) = (c :: s) :: ss := by
  have hne := splitOn_ne_nil sep cs
  cases hs : splitOn sep cs with
  | nil => exact absurd hs hne
  | cons s ss => exact ⟨s, ss, rfl, by simp [splitOn, h, hs]⟩

theorem splitOn_nosep (sep : Nat) (a : Bytes) (h : sep ∉ a) : splitOn sep a = [a] := by
  induction a with
  | nil => simp [splitOn]
  | cons c cs ih =>
    have hc : c ≠ sep := by intro e; exact h (e ▸ List.mem_cons_self ..)
    have hcs : sep ∉ cs := fun m => h (List.mem_cons_of_mem _ m)
    obtain ⟨s, ss, h1, h2⟩ := splitOn_cons_ne sep c cs hc
    rw [ih hcs] at h1
    cases h1
    exact h2

theorem splitOn_append_sep (sep : Nat) (a b : Bytes) (h : sep ∉ a) :
    splitOn sep (a ++ sep :: b) = a :: splitOn sep b := by
  induction a with
  | nil => simp [splitOn]
  | cons c cs ih =>
    have hc : c ≠ sep := by intro e; exact h (e ▸ List.mem_cons_self ..)
    have hcs : sep ∉ cs := fun m => h (List.mem_cons_of_mem _ m)
    obtain ⟨s, ss, h1, h2⟩ := splitOn_cons_ne sep c (cs ++ sep :: b) hc
    rw [ih hcs] at h1
    cases h1
    simpa using h2

theorem splitOn_no_sep (sep : Nat) (s : Bytes) : ∀ x ∈ splitOn sep s, sep ∉ x := by
  induction s with
  | nil => intro x hx; simp [splitOn] at hx; subst hx; simp
  | cons c cs ih =>
    intro x hx
    by_cases hc : c = sep
    · subst hc
      rw [splitOn_cons_sep] at hx
      rcases List.mem_cons.mp hx with rfl | h
      · simp
      · exact ih x h
    · obtain ⟨s, ss, h1, h2⟩ := splitOn_cons_ne sep c cs hc
      rw [h2] at hx
      rcases List.mem_cons.mp hx with rfl | h
      · intro hm
        rcases List.mem_cons.mp hm with e | hm'
        · exact hc e.symm
        · exact ih s (by rw [h1]; exact List.mem_cons_self ..) hm'
      · exact ih x (by rw [h1]; exact List.mem_cons_of_mem _ h)

theorem joinWith_cons_cons (sep p q : Bytes) (ps : List Bytes) :
    joinWith sep (p :: q :: ps) = p ++ sep ++ joinWith sep (q :: ps) := rfl

/-- `strings.Join(strings.Split(s, sep), sep) = s` -/
theorem joinWith_splitOn (sep : Nat) (s : Bytes) : joinWith [sep] (splitOn sep s) = s := by
  induction s with
  | nil => simp [splitOn, joinWith]
  | cons c cs ih =>
    by_cases hc : c = sep
    · subst hc
      rw [splitOn_cons_sep]
      have hne := splitOn_ne_nil c cs
      cases hs : splitOn c cs with
      | nil => exact absurd hs hne
      | cons s ss =>
        rw [joinWith_cons_cons, ← hs, ih]; simp
    · obtain ⟨s, ss, h1, h2⟩ := splitOn_cons_ne sep c cs hc
      rw [h2]
      rw [h1] at ih
      cases ss with
      | nil => simp [joinWith] at ih ⊢; exact ih
      | cons t ts =>
        rw [joinWith_cons_cons] at ih ⊢
        simp at ih ⊢; exact ih

/-- `strings.Split(strings.Join(l, sep), sep) = l` when no part contains the separator -/
theorem splitOn_joinWith (sep : Nat) (l : List Bytes) (hne : l ≠ []) (h : ∀ x ∈ l, sep ∉ x) :
    splitOn sep (joinWith [sep] l) = l := by
  induction l with
  | nil => exact absurd rfl hne
  | cons p ps ih =>
    cases ps with
    | nil => simpa [joinWith] using splitOn_nosep sep p (h p (List.mem_cons_self ..))
    | cons q qs =>
      rw [joinWith_cons_cons]
      have : p ++ [sep] ++ joinWith [sep] (q :: qs) = p ++ sep :: joinWith [sep] (q :: qs) := by simp
      rw [this, splitOn_append_sep sep p _ (h p (List.mem_cons_self ..))]
      rw [ih (by simp) (fun x hx => h x (List.mem_cons_of_mem _ hx))]

theorem isPrefixOfB_iff (a b : Bytes) : isPrefixOfB a b = true ↔ ∃ t, b = a ++ t := by
  induction a generalizing b with
  | nil => simp [isPrefixOfB]
  | cons x xs ih =>
    cases b with
    | nil => simp [isPrefixOfB]
    | cons y ys =>
      simp only [isPrefixOfB, Bool.and_eq_true, beq_iff_eq, ih, List.cons_append, List.cons.injEq]
      constructor
      · rintro ⟨rfl, t, rfl⟩; exact ⟨t, rfl, rfl⟩
      · rintro ⟨t, rfl, rfl⟩; exact ⟨rfl, t, rfl⟩

end Pgs
