import PgsVerif.Proofs.PathsNodup
import PgsVerif.Props.C07
/-!
# No two declarations of a request share a reference (C01: every entity exactly once)

The declaration list `declared w` (what hydration registers, in order) carries one reference
(file, path) per declaration; here: these references are pairwise distinct, for every request.
-/
namespace Pgs.AST

/-- every reference of `L` lies under `q` through one of the fields `ts` -/
def UnderTags (q : List Nat) (ts : List Nat) (L : List Ref) : Prop :=
  ∀ r ∈ L, ∃ a ∈ ts, ∃ j t, r.path = q ++ a :: j :: t

theorem UnderTags.nil (q : List Nat) (ts : List Nat) : UnderTags q ts [] := by intro r hr; simp at hr

theorem Under.tags {q a i L} (h : Under q a i L) : UnderTags q [a] L := by
  intro r hr; obtain ⟨j, t, _, p⟩ := h r hr; exact ⟨a, by simp, j, t, p⟩

theorem UnderTags.cons {q a i ts A M} (ha : Under q a i A) (hm : UnderTags q ts M) : UnderTags q (a :: ts) (A ++ M) := by
  intro r hr
  rcases List.mem_append.mp hr with h | h
  · obtain ⟨j, t, _, p⟩ := ha r h; exact ⟨a, by simp, j, t, p⟩
  · obtain ⟨b, hb, j, t, p⟩ := hm r h; exact ⟨b, List.mem_cons_of_mem _ hb, j, t, p⟩

theorem nodup_append_tags {q : List Nat} {a i : Nat} {ts : List Nat} {A M : List Ref}
    (ha : Under q a i A) (hm : UnderTags q ts M) (hne : a ∉ ts) (na : A.Nodup) (nm : M.Nodup) : (A ++ M).Nodup := by
  refine List.nodup_append.mpr ⟨na, nm, ?_⟩
  intro x hx y hy e
  obtain ⟨_, _, _, p1⟩ := ha x hx
  obtain ⟨b, hb, _, _, p2⟩ := hm y hy
  rw [e, p2] at p1
  have := List.append_cancel_left p1
  simp at this
  exact hne (this.1 ▸ hb)

theorem self_not_underTags {fi : Nat} {q : List Nat} {ts : List Nat} {L : List Ref} (h : UnderTags q ts L) : (⟨fi, q⟩ : Ref) ∉ L := by
  intro hm
  obtain ⟨_, _, j, t, p⟩ := h _ hm
  have := congrArg List.length p
  simp at this

theorem UnderTags.lift {q : List Nat} {a i : Nat} {ts : List Nat} {L : List Ref} (h : UnderTags (q ++ [a, i]) ts L) : UnderAt q a i L := by
  intro r hr; obtain ⟨b, _, j, t, p⟩ := h r hr
  exact ⟨b :: j :: t, by rw [p]; simp⟩

/-! ### references of the pieces of the declaration list -/
theorem idx_map_fst {α β} (l : List α) (g : Nat → β) : (idx l).map (fun q => g q.1) = (List.range l.length).map g := by
  have : (idx l).map (fun q => g q.1) = ((idx l).map Prod.fst).map g := by simp [List.map_map, Function.comp_def]
  rw [this]
  unfold idx
  rw [List.map_fst_zip (by simp)]

theorem declFields_refs (fi : Nat) (sc : String) (p : List Nat) (tag : Nat) (k : Kind) (fs : List FieldD) :
    (declFields fi sc p tag k fs).map (·.ref) = childRefs fi p tag fs.length := by
  simp only [declFields, List.map_map, childRefs]
  exact idx_map_fst fs (fun i => (⟨fi, p ++ [tag, i]⟩ : Ref))

theorem declOneofs_refs (fi : Nat) (sc : String) (p : List Nat) (os : List String) :
    (declOneofs fi sc p os).map (·.ref) = childRefs fi p 8 os.length := by
  simp only [declOneofs, List.map_map, childRefs]
  exact idx_map_fst os (fun i => (⟨fi, p ++ [8, i]⟩ : Ref))

theorem declEnum_refs (fi : Nat) (sc : String) (q : List Nat) (e : EnumD) :
    (declEnum fi sc q e).map (·.ref) = enumOrder ⟨fi, q⟩ e.values.length := by
  simp only [declEnum, List.map_cons, List.map_map, enumOrder, childRefs]
  congr 1
  exact idx_map_fst e.values (fun i => (⟨fi, q ++ [2, i]⟩ : Ref))

theorem declEnums_refs (fi : Nat) (sc : String) (p : List Nat) (tag : Nat) (es : List EnumD) :
    (declEnums fi sc p tag es).map (·.ref) = (enumsF fi p tag 0 es).pre := by
  rw [enumsF_pre]
  simp only [declEnums, List.map_flatten, List.map_map, Nat.zero_add]
  congr 1
  apply List.map_congr_left
  intro q _
  obtain ⟨i, e⟩ := q
  simp only [Function.comp, declEnum_refs]

theorem declService_refs (fi : Nat) (sc : String) (i : Nat) (s : ServiceD) :
    (declService fi sc i s).map (·.ref) = (⟨fi, [6, i]⟩ : Ref) :: childRefs fi [6, i] 2 s.methods.length := by
  simp only [declService, List.map_cons, List.map_map, childRefs]
  congr 1
  exact idx_map_fst s.methods (fun j => (⟨fi, [6, i, 2, j]⟩ : Ref))

theorem declServices_refs (fi : Nat) (f : FileD) : (declServices fi f).map (·.ref) = (servicesF fi 0 f.services).pre := by
  rw [servicesF_pre]
  simp only [declServices, List.map_flatten, List.map_map, Nat.zero_add]
  congr 1
  apply List.map_congr_left
  intro q _
  obtain ⟨i, s⟩ := q
  simp only [Function.comp, declService_refs]

/-! ### messages -/
/-- contents of a message in declaration order: enums, nested, oneofs, fields, extensions -/
def declKidRefs (fi : Nat) (here : List Nat) (h : MsgHead) (nestedRefs : List Ref) : List Ref :=
  (enumsF fi here 4 0 h.enums).pre ++ (nestedRefs ++ (childRefs fi here 8 h.oneofs.length ++
    (childRefs fi here 2 h.fields.length ++ childRefs fi here 6 h.exts.length)))

theorem declKidRefs_tags (fi : Nat) (here : List Nat) (h : MsgHead) (nestedRefs : List Ref) (hu : Under here 3 0 nestedRefs) :
    UnderTags here [4, 3, 8, 2, 6] (declKidRefs fi here h nestedRefs) :=
  UnderTags.cons (enumsF_under fi here 4 h.enums 0) (UnderTags.cons hu (UnderTags.cons (childRefs_under fi here 8 _)
    (UnderTags.cons (childRefs_under fi here 2 _) (childRefs_under fi here 6 h.exts.length).tags)))

theorem declKidRefs_nodup (fi : Nat) (here : List Nat) (h : MsgHead) (nestedRefs : List Ref)
    (hu : Under here 3 0 nestedRefs) (hn : nestedRefs.Nodup) : (declKidRefs fi here h nestedRefs).Nodup := by
  unfold declKidRefs
  have u6 := childRefs_under fi here 6 h.exts.length
  have u2 := childRefs_under fi here 2 h.fields.length
  have u8 := childRefs_under fi here 8 h.oneofs.length
  have t6 := u6.tags
  have t26 := UnderTags.cons u2 t6
  have t826 := UnderTags.cons u8 t26
  have t3826 := UnderTags.cons hu t826
  have n26 := nodup_append_tags u2 t6 (by decide) (childRefs_nodup ..) (childRefs_nodup ..)
  have n826 := nodup_append_tags u8 t26 (by decide) (childRefs_nodup ..) n26
  have n3826 := nodup_append_tags hu t826 (by decide) hn n826
  exact nodup_append_tags (enumsF_under fi here 4 h.enums 0) t3826 (by decide) (enumsF_nodup ..) n3826

theorem declMsgs_refs_cons (fi : Nat) (sc : String) (p : List Nat) (tag i : Nat) (h : MsgHead) (nested rest : Msgs) :
    (declMsgs fi sc p tag i (.cons h nested rest)).map (·.ref) =
      ((⟨fi, p ++ [tag, i]⟩ : Ref) :: declKidRefs fi (p ++ [tag, i]) h
          ((declMsgs fi (sc ++ "." ++ h.name) (p ++ [tag, i]) 3 0 nested).map (·.ref)))
        ++ (declMsgs fi sc p tag (i+1) rest).map (·.ref) := by
  simp only [declMsgs, List.map_append, List.map_cons, declEnums_refs, declOneofs_refs, declFields_refs, declKidRefs,
    List.cons_append, List.append_assoc]

theorem declMsgs_under (fi : Nat) : ∀ (ms : Msgs) (sc : String) (p : List Nat) (tag i : Nat),
    Under p tag i ((declMsgs fi sc p tag i ms).map (·.ref)) := by
  intro ms
  induction ms with
  | nil => intro sc p tag i r hr; simp [declMsgs] at hr
  | cons h nested rest ih1 ih2 =>
    intro sc p tag i
    rw [declMsgs_refs_cons]
    intro r hr
    rcases List.mem_append.mp hr with hr | hr
    · rcases List.mem_cons.mp hr with rfl | hr
      · exact ⟨i, [], Nat.le_refl _, rfl⟩
      · obtain ⟨t, hp⟩ := (declKidRefs_tags fi _ h _ (ih1 _ (p ++ [tag, i]) 3 0)).lift r hr
        exact ⟨i, t, Nat.le_refl _, hp⟩
    · exact (ih2 sc p tag (i+1)).weaken (Nat.le_succ i) r hr

theorem declMsgs_nodup (fi : Nat) : ∀ (ms : Msgs) (sc : String) (p : List Nat) (tag i : Nat),
    ((declMsgs fi sc p tag i ms).map (·.ref)).Nodup := by
  intro ms
  induction ms with
  | nil => intro sc p tag i; simp [declMsgs]
  | cons h nested rest ih1 ih2 =>
    intro sc p tag i
    rw [declMsgs_refs_cons]
    have hu := declMsgs_under fi nested (sc ++ "." ++ h.name) (p ++ [tag, i]) 3 0
    have htags := declKidRefs_tags fi (p ++ [tag, i]) h _ hu
    have hkids := declKidRefs_nodup fi (p ++ [tag, i]) h _ hu (ih1 _ (p ++ [tag, i]) 3 0)
    have hat : UnderAt p tag i ((⟨fi, p ++ [tag, i]⟩ : Ref) :: declKidRefs fi (p ++ [tag, i]) h
        ((declMsgs fi (sc ++ "." ++ h.name) (p ++ [tag, i]) 3 0 nested).map (·.ref))) := by
      intro r hr
      rcases List.mem_cons.mp hr with rfl | hr
      · exact ⟨[], rfl⟩
      · exact htags.lift r hr
    exact List.nodup_append.mpr ⟨List.nodup_cons.mpr ⟨self_not_underTags htags, hkids⟩, ih2 sc p tag (i+1),
      disjoint_index hat (declMsgs_under fi rest sc p tag (i+1))⟩

/-- the declarations of one file have pairwise distinct references -/
theorem declFile_refs_nodup (fi : Nat) (f : FileD) : ((declFile fi f).map (·.ref)).Nodup := by
  have u5 := enumsF_under fi [] 5 f.enums 0
  have u7 := childRefs_under fi [] 7 f.exts.length
  have u4 := declMsgs_under fi f.msgs (fileScope f) [] 4 0
  have u6 := servicesF_under fi f.services 0
  have t6 := u6.tags
  have t46 := UnderTags.cons u4 t6
  have t746 := UnderTags.cons u7 t46
  have t5746 := UnderTags.cons u5 t746
  have n46 := nodup_append_tags u4 t6 (by decide) (declMsgs_nodup ..) (servicesF_nodup ..)
  have n746 := nodup_append_tags u7 t46 (by decide) (childRefs_nodup ..) n46
  have n5746 := nodup_append_tags u5 t746 (by decide) (enumsF_nodup ..) n746
  simp only [declFile, declFileHead, List.map_append, List.map_cons, declEnums_refs, declFields_refs, declServices_refs,
    List.cons_append, List.append_assoc]
  exact List.nodup_cons.mpr ⟨self_not_underTags t5746, n5746⟩

end Pgs.AST
