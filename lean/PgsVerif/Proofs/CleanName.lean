import PgsVerif.Model.CleanName
import PgsVerif.Proofs.Bytes
/-! Helper lemmas for C11: `filepath.Clean` on a relative path simulates the declarative walk. -/
namespace Pgs.C11
open Pgs Pgs.FilePath

/-- not empty / `.` / `..` -/
def nameSeg (s : Seg) : Prop := s ≠ [] ∧ s ≠ dotSeg ∧ s ≠ dotdot

/-- Simulation invariant between Clean's stack and the walk state. -/
def Inv (st : List Seg) (w : Option (List Seg)) : Prop :=
  (w = some st ∧ ∀ s ∈ st, nameSeg s) ∨ (w = none ∧ st.getLast? = some dotdot)

theorem getLast?_cons_of_getLast? {α} (a : α) (l : List α) (x : α) (h : l.getLast? = some x) :
    (a :: l).getLast? = some x := by
  cases l with
  | nil => simp at h
  | cons b t => simpa [List.getLast?_cons_cons] using h

theorem inv_step (st : List Seg) (w : Option (List Seg)) (s : Seg) (h : Inv st w) :
    Inv (cleanStep false st s) (walkStep w s) := by
  rcases h with ⟨rfl, hn⟩ | ⟨rfl, hl⟩
  · -- in step: no `..` on the stack
    unfold cleanStep walkStep
    by_cases h1 : s = [] ∨ s = dotSeg
    · simp only [h1, if_true]; exact Or.inl ⟨rfl, hn⟩
    · simp only [h1, if_false]
      by_cases h2 : s = dotdot
      · simp only [h2, if_true]
        cases st with
        | nil => right; simp
        | cons t rest =>
          have ht : t ≠ dotdot := (hn t (List.mem_cons_self ..)).2.2
          simp only [ht, if_false]
          exact Or.inl ⟨rfl, fun x hx => hn x (List.mem_cons_of_mem _ hx)⟩
      · simp only [h2, if_false]
        left
        refine ⟨rfl, ?_⟩
        intro x hx
        rcases List.mem_cons.mp hx with rfl | hx
        · exact ⟨fun e => h1 (Or.inl e), fun e => h1 (Or.inr e), h2⟩
        · exact hn x hx
  · -- the walk already failed: `..` stays at the bottom of the stack
    refine Or.inr ⟨by simp [walkStep], ?_⟩
    unfold cleanStep
    by_cases h1 : s = [] ∨ s = dotSeg
    · simp only [h1, if_true]; exact hl
    · simp only [h1, if_false]
      by_cases h2 : s = dotdot
      · simp only [h2, if_true]
        cases st with
        | nil => simp at hl
        | cons t rest =>
          by_cases ht : t = dotdot
          · simp only [ht, if_true]
            subst ht
            exact getLast?_cons_of_getLast? _ _ _ hl
          · simp only [ht, if_false]
            cases rest with
            | nil => simp at hl; exact absurd hl ht
            | cons u us => simpa [List.getLast?_cons_cons] using hl
      · simp only [h2, if_false]
        exact getLast?_cons_of_getLast? _ _ _ hl

theorem inv_foldl (segs : List Seg) (st : List Seg) (w : Option (List Seg)) (h : Inv st w) :
    Inv (segs.foldl (cleanStep false) st) (segs.foldl walkStep w) := by
  induction segs generalizing st w with
  | nil => simpa using h
  | cons s ss ih => simp only [List.foldl_cons]; exact ih _ _ (inv_step st w s h)

theorem inv_final (segs : List Seg) :
    Inv (segs.foldl (cleanStep false) []) (walk segs) :=
  inv_foldl segs [] (some []) (Or.inl ⟨rfl, by simp⟩)

/-- everything on Clean's stack is an input segment or `..` -/
theorem cleanStep_mem (r : Bool) (st : List Seg) (s x : Seg) (hx : x ∈ cleanStep r st s) :
    x ∈ st ∨ x = s ∨ x = dotdot := by
  unfold cleanStep at hx
  split at hx
  · exact Or.inl hx
  · split at hx
    · cases st with
      | nil => simp at hx; exact Or.inr (Or.inr hx.2)
      | cons t rest =>
        simp only at hx
        split at hx
        · rcases List.mem_cons.mp hx with h | h
          · exact Or.inr (Or.inr h)
          · exact Or.inl h
        · exact Or.inl (List.mem_cons_of_mem _ hx)
    · rcases List.mem_cons.mp hx with h | h
      · exact Or.inr (Or.inl h)
      · exact Or.inl h

theorem foldl_cleanStep_mem (r : Bool) (segs st : List Seg) (x : Seg)
    (hx : x ∈ segs.foldl (cleanStep r) st) : x ∈ st ∨ x ∈ segs ∨ x = dotdot := by
  induction segs generalizing st with
  | nil => exact Or.inl (by simpa using hx)
  | cons s ss ih =>
    simp only [List.foldl_cons] at hx
    rcases ih _ hx with h | h | h
    · rcases cleanStep_mem r st s x h with h | h | h
      · exact Or.inl h
      · exact Or.inr (Or.inl (h ▸ List.mem_cons_self ..))
      · exact Or.inr (Or.inr h)
    · exact Or.inr (Or.inl (List.mem_cons_of_mem _ h))
    · exact Or.inr (Or.inr h)

theorem slash_not_mem_dotdot : slash ∉ dotdot := by decide

/-- a joined list whose first part is `..` starts with two dots -/
theorem prefix_of_head_dotdot (rest : List Seg) : isPrefixOfB dotdot (joinWith [slash] (dotdot :: rest)) = true := by
  cases rest with
  | nil => decide
  | cons q qs => rw [joinWith_cons_cons]; simp [dotdot, isPrefixOfB]

/-- all-name segment lists are pushed verbatim -/
theorem foldl_names (r : Bool) (segs st : List Seg) (h : ∀ s ∈ segs, nameSeg s) :
    segs.foldl (cleanStep r) st = segs.reverse ++ st := by
  induction segs generalizing st with
  | nil => simp
  | cons s ss ih =>
    have hs := h s (List.mem_cons_self ..)
    have : cleanStep r st s = s :: st := by
      unfold cleanStep
      have h1 : ¬ (s = [] ∨ s = dotSeg) := fun e => e.elim hs.1 hs.2.1
      simp [h1, hs.2.2]
    simp only [List.foldl_cons, this]
    rw [ih _ (fun x hx => h x (List.mem_cons_of_mem _ hx))]
    simp

theorem walk_names (segs st : List Seg) (h : ∀ s ∈ segs, nameSeg s) :
    segs.foldl walkStep (some st) = some (segs.reverse ++ st) := by
  induction segs generalizing st with
  | nil => simp
  | cons s ss ih =>
    have hs := h s (List.mem_cons_self ..)
    have : walkStep (some st) s = some (s :: st) := by
      unfold walkStep
      have h1 : ¬ (s = [] ∨ s = dotSeg) := fun e => e.elim hs.1 hs.2.1
      simp [h1, hs.2.2]
    simp only [List.foldl_cons, this]
    rw [ih _ (fun x hx => h x (List.mem_cons_of_mem _ hx))]
    simp

theorem properSeg_iff (s : Seg) : properSeg s = true ↔ nameSeg s ∧ slash ∉ s := by
  simp [properSeg, nameSeg, and_assoc]

theorem foldl_walk_none (l : List Seg) : l.foldl walkStep none = none := by
  induction l with
  | nil => rfl
  | cons a l ih => simp [walkStep, ih]

/-- the walk state is the part of the denotation above the base -/
theorem denote_of_walk (segs st : List Seg) (base : List Seg) (r : List Seg)
    (h : segs.foldl walkStep (some st) = some r) :
    segs.foldl denoteStep (st ++ base) = r ++ base := by
  induction segs generalizing st with
  | nil => simp at h; simp [h]
  | cons s ss ih =>
    simp only [List.foldl_cons] at h ⊢
    by_cases h1 : s = [] ∨ s = dotSeg
    · have hw : walkStep (some st) s = some st := by simp [walkStep, h1]
      have hd : denoteStep (st ++ base) s = st ++ base := by simp [denoteStep, h1]
      rw [hw] at h; rw [hd]; exact ih st h
    · by_cases h2 : s = dotdot
      · cases st with
        | nil =>
          have hw : walkStep (some []) s = none := by subst h2; simp [walkStep, dotdot, dotSeg]
          rw [hw, foldl_walk_none] at h; cases h
        | cons t rest =>
          have hw : walkStep (some (t :: rest)) s = some rest := by subst h2; simp [walkStep, dotdot, dotSeg]
          have hd : denoteStep (t :: rest ++ base) s = rest ++ base := by subst h2; simp [denoteStep, dotdot, dotSeg]
          rw [hw] at h; rw [hd]; exact ih rest h
      · have hw : walkStep (some st) s = some (s :: st) := by simp [walkStep, h1, h2]
        have hd : denoteStep (st ++ base) s = (s :: st) ++ base := by simp [denoteStep, h1, h2]
        rw [hw] at h; rw [hd]; exact ih (s :: st) h

end Pgs.C11
