import PgsVerif.Model.Walk
import PgsVerif.Proofs.Hydrate
/-!
# C07 — the ten `accept` methods are one generic visitor walk over the containment forest

`Forest` is the containment structure (first child / next sibling).  `walkForest` is the generic
reading of the property: visit a node; unless the visit failed or returned no visitor, walk its
contents with the visitor it returned; then go on with the next sibling — and nothing once an error
was returned.  The model of the accept methods (`acceptFile`, `acceptMsgs`, …), which transcribes
the code method by method, is proved equal to `walkForest` on the forest of the request.
-/
namespace Pgs.AST

inductive Forest where
  | nil
  | node (r : Ref) (kids : Forest) (next : Forest)

def Forest.append : Forest → Forest → Forest
  | .nil, b => b
  | .node r k n, b => .node r k (n.append b)

/-- containment pre-order -/
def Forest.pre : Forest → List Ref
  | .nil => []
  | .node r k n => r :: k.pre ++ n.pre

theorem Forest.pre_append (a b : Forest) : (a.append b).pre = a.pre ++ b.pre := by
  induction a with
  | nil => rfl
  | node r k n _ ih2 => simp [Forest.append, Forest.pre, ih2]

/-- the generic walk -/
def walkForest (pol : Policy) (v : Nat) : Forest → WS → WS
  | .nil, ws => ws
  | .node r kids next, ws =>
    if ws.err.isSome then ws else
    let ws' := match visit pol v r ws with
      | (ws1, none) => ws1
      | (ws1, some v1) => if ws1.err.isSome then ws1 else walkForest pol v1 kids ws1
    walkForest pol v next ws'

theorem walkForest_err (pol : Policy) (v : Nat) (t : Forest) (ws : WS) (h : ws.err.isSome = true) :
    walkForest pol v t ws = ws := by
  cases t with
  | nil => rfl
  | node r k n => simp [walkForest, h]

theorem walkForest_append (pol : Policy) (v : Nat) (a b : Forest) : ∀ ws,
    walkForest pol v (a.append b) ws = walkForest pol v b (walkForest pol v a ws) := by
  induction a with
  | nil => intro ws; rfl
  | node r k n _ ih2 =>
    intro ws
    simp only [Forest.append, walkForest]
    by_cases h : ws.err.isSome = true
    · simp only [h, if_true]; rw [walkForest_err pol v b ws h]
    · simp only [h]; exact ih2 _

/-! ### forests of the request -/
def leavesF : List Ref → Forest
  | [] => .nil
  | r :: rs => .node r .nil (leavesF rs)

def enumsF (fi : Nat) (p : List Nat) (tag : Nat) : Nat → List EnumD → Forest
  | _, [] => .nil
  | i, e :: es => .node ⟨fi, p ++ [tag, i]⟩ (leavesF (childRefs fi (p ++ [tag, i]) 2 e.values.length)) (enumsF fi p tag (i+1) es)

def msgsF (fi : Nat) (p : List Nat) (tag : Nat) : Nat → Msgs → Forest
  | _, .nil => .nil
  | i, .cons h nested rest =>
    let here := p ++ [tag, i]
    if h.mapEntry then msgsF fi p tag (i+1) rest
    else .node ⟨fi, here⟩
      ((enumsF fi here 4 0 h.enums).append ((msgsF fi here 3 0 nested).append
        ((leavesF (childRefs fi here 2 h.fields.length)).append
          ((leavesF (childRefs fi here 8 h.oneofs.length)).append (leavesF (childRefs fi here 6 h.exts.length))))))
      (msgsF fi p tag (i+1) rest)

def servicesF (fi : Nat) : Nat → List ServiceD → Forest
  | _, [] => .nil
  | i, s :: ss => .node ⟨fi, [6, i]⟩ (leavesF (childRefs fi [6, i] 2 s.methods.length)) (servicesF fi (i+1) ss)

def fileKidsF (fi : Nat) (f : FileD) : Forest :=
  (enumsF fi [] 5 0 f.enums).append ((msgsF fi [] 4 0 f.msgs).append
    ((servicesF fi 0 f.services).append (leavesF (childRefs fi [] 7 f.exts.length))))

def fileF (fi : Nat) (f : FileD) : Forest := .node ⟨fi, []⟩ (fileKidsF fi f) .nil

theorem leavesF_pre (rs : List Ref) : (leavesF rs).pre = rs := by
  induction rs with
  | nil => rfl
  | cons r rs ih => simp [leavesF, Forest.pre, ih]

/-! ### the accept methods are the generic walk -/
theorem acceptLeaves_eq (pol : Policy) (v : Nat) : ∀ (rs : List Ref) (ws : WS),
    acceptLeaves pol v rs ws = walkForest pol v (leavesF rs) ws := by
  intro rs
  induction rs with
  | nil => intro ws; rfl
  | cons r rs ih =>
    intro ws
    simp only [acceptLeaves, leavesF, walkForest]
    by_cases h : ws.err.isSome = true
    · simp [h]
    · simp only [h]
      rw [ih]
      -- a leaf has no contents: whatever the visit answers, the walk goes on with the siblings
      cases hv : visit pol v r ws with
      | mk ws1 o =>
        cases o with
        | none => rfl
        | some v1 =>
          simp [walkForest]

theorem acceptEnums_eq (pol : Policy) (v : Nat) (fi : Nat) (p : List Nat) (tag : Nat) : ∀ (es : List EnumD) (i : Nat) (ws : WS),
    acceptEnums pol v fi p tag i es ws = walkForest pol v (enumsF fi p tag i es) ws := by
  intro es
  induction es with
  | nil => intro i ws; rfl
  | cons e es ih =>
    intro i ws
    simp only [acceptEnums, enumsF, walkForest, ih, acceptEnum]
    by_cases h : ws.err.isSome = true
    · simp only [h, if_true]
      rw [walkForest_err _ _ _ _ h]
    · simp only [h]
      congr 1
      cases hv : visit pol v ⟨fi, p ++ [tag, i]⟩ ws with
      | mk ws1 o =>
        cases o with
        | none => rfl
        | some v1 => simp [acceptLeaves_eq]

theorem acceptServices_eq (pol : Policy) (v : Nat) (fi : Nat) : ∀ (ss : List ServiceD) (i : Nat) (ws : WS),
    acceptServices pol v fi i ss ws = walkForest pol v (servicesF fi i ss) ws := by
  intro ss
  induction ss with
  | nil => intro i ws; rfl
  | cons s ss ih =>
    intro i ws
    simp only [acceptServices, servicesF, walkForest, ih, acceptService]
    by_cases h : ws.err.isSome = true
    · simp only [h, if_true]
      rw [walkForest_err _ _ _ _ h]
    · simp only [h]
      congr 1
      cases hv : visit pol v ⟨fi, [6, i]⟩ ws with
      | mk ws1 o =>
        cases o with
        | none => rfl
        | some v1 => simp [acceptLeaves_eq]

theorem acceptMsgs_eq (pol : Policy) (fi : Nat) : ∀ (ms : Msgs) (p : List Nat) (tag v i : Nat) (ws : WS),
    acceptMsgs pol fi p tag v i ms ws = walkForest pol v (msgsF fi p tag i ms) ws := by
  intro ms
  induction ms with
  | nil => intro p tag v i ws; rfl
  | cons h nested rest ih1 ih2 =>
    intro p tag v i ws
    simp only [acceptMsgs, msgsF]
    by_cases hm : h.mapEntry = true
    · simp only [hm, Bool.true_or, if_true]
      exact ih2 _ _ _ _ _
    · have hm' : h.mapEntry = false := by simpa using hm
      simp only [hm', Bool.false_or, Bool.false_eq_true, if_false]
      simp only [walkForest]
      by_cases he : ws.err.isSome = true
      · simp only [he, if_true]
        rw [ih2, walkForest_err _ _ _ _ he]
      · simp only [he]
        rw [ih2]
        congr 1
        cases hv : visit pol v ⟨fi, p ++ [tag, i]⟩ ws with
        | mk ws1 o =>
          cases o with
          | none => rfl
          | some v1 =>
            simp [walkForest_append, acceptEnums_eq, ih1, acceptLeaves_eq]

theorem acceptFile_eq (pol : Policy) (v : Nat) (fi : Nat) (f : FileD) (ws : WS) :
    acceptFile pol v fi f ws = walkForest pol v (fileF fi f) ws := by
  simp only [acceptFile, fileF, walkForest]
  by_cases he : ws.err.isSome = true
  · simp [he]
  · simp only [he]
    cases hv : visit pol v ⟨fi, []⟩ ws with
    | mk ws1 o =>
      cases o with
      | none => rfl
      | some v1 =>
        simp [fileKidsF, walkForest_append, acceptEnums_eq, acceptMsgs_eq, acceptServices_eq, acceptLeaves_eq]

end Pgs.AST
