import PgsVerif.Proofs.Comment
/-! What one call of `splitComment` does, and the scanner loop. -/
namespace Pgs.C20
open Pgs

/-- what a split call may return for buffered data `data` whose leading blanks (bytes `lw`) were
    skipped: nothing (data untouched), or a token that starts at a word, ends at a word
    boundary, leaves behind only data with the same remaining words, makes progress, and fits
    the width whenever it contains a blank -/
structure Spec (w : Int) (lw : Nat) (eof : Bool) (data : List R) (res : SplitRes) : Prop where
  none_case : res.token = none → res.rest = data ∧ (eof = true → data = [])
  some_case : ∀ t, res.token = some t →
    fields data = fields t ++ fields res.rest ∧ fields t ≠ [] ∧ res.rest.length < data.length ∧
    ((∃ r ∈ t, r.sp = true) → ((lw + width t : Nat) : Int) < w)

/-- invariant of the remembered last blank -/
def LsInv (w : Int) (lw : Nat) (data cur : List R) : LastSpace → Prop
  | none => ∀ r ∈ cur, r.sp = false
  | some (tok, rest') =>
    tok ≠ [] ∧ tok.reverse ++ rest' = data ∧ (∃ s rs, rest' = s :: rs ∧ s.sp = true) ∧
    ((lw + width tok.reverse : Nat) : Int) < w

theorem head_of_reverse_append {α} (cur : List α) (rem : List α) (x : α) (hc : cur ≠ [])
    (h : (cur.reverse ++ rem).head? = some x) : cur.getLast? = some x := by
  cases hr : cur.reverse with
  | nil => simp at hr; exact absurd hr hc
  | cons a t =>
    rw [hr] at h
    simp at h
    have : cur = (a :: t).reverse := by rw [← hr]; simp
    rw [this]; simp [h]

/-- a token that starts with a non-blank has a word -/
theorem fields_ne_nil_of_head (t : List R) (x : R) (h : t.head? = some x) (hx : x.sp = false) : fields t ≠ [] := by
  cases t with
  | nil => simp at h
  | cons a t => simp at h; subst h; exact fields_ne_nil a t hx

theorem scanFrom_spec (w : Int) (eof : Bool) (lw : Nat) (data : List R)
    (hhead : ∀ x, data.head? = some x → x.sp = false) :
    ∀ (rem : List R) (i : Nat) (cur : List R) (ls : LastSpace),
      cur.reverse ++ rem = data → i = lw + width cur.reverse → LsInv w lw data cur ls →
      Spec w lw eof data (scanFrom w eof rem i cur ls) := by
  intro rem
  induction rem with
  | nil =>
    intro i cur ls hdata hi hls
    simp only [List.append_nil] at hdata
    unfold scanFrom
    by_cases hc : (eof && decide (cur ≠ [])) = true
    · have ⟨he, hcne⟩ : eof = true ∧ cur ≠ [] := by simpa using hc
      simp only [hc, if_true]
      -- the trimmed token
      have trimmed : ∀ (hno : (∃ r ∈ (cur.dropWhile (·.sp)).reverse, r.sp = true) → ((lw + width (cur.dropWhile (·.sp)).reverse : Nat) : Int) < w),
          Spec w lw eof data ⟨some (cur.dropWhile (·.sp)).reverse, []⟩ := by
        intro hno
        have hsplit : data = (cur.dropWhile (·.sp)).reverse ++ (cur.takeWhile (·.sp)).reverse := by
          rw [← hdata, ← List.reverse_append, List.takeWhile_append_dropWhile]
        have htrail : ∀ r ∈ (cur.takeWhile (·.sp)).reverse, r.sp = true := by
          intro r hr
          have := List.mem_reverse.mp hr
          have hall := List.all_takeWhile (p := (·.sp)) (l := cur)
          exact List.all_eq_true.mp hall r this
        -- the first rune of the data is a non-blank, so the trimmed token keeps it
        have hfirst : ∃ x, ((cur.dropWhile (·.sp)).reverse).head? = some x ∧ x.sp = false := by
          cases hd : data with
          | nil => rw [← hdata] at hd; simp at hd; exact absurd hd hcne
          | cons x rest =>
            have hx := hhead x (by rw [hd]; rfl)
            refine ⟨x, ?_, hx⟩
            -- x is the last element of cur, which is not blank, so dropWhile keeps it as last
            have hlast : cur.getLast? = some x := by
              have : (cur.reverse ++ []).head? = some x := by rw [List.append_nil, hdata, hd]; rfl
              exact head_of_reverse_append cur [] x hcne this
            rw [List.head?_reverse]
            -- getLast? of dropWhile
            clear hsplit htrail hno hd hdata hi hls hc
            induction cur with
            | nil => simp at hcne
            | cons a t ih =>
              by_cases ht : t = []
              · subst ht; simp at hlast; subst hlast; simp [List.dropWhile, hx]
              · have hl' : t.getLast? = some x := by
                  cases t with
                  | nil => exact absurd rfl ht
                  | cons b t' => simpa [List.getLast?_cons_cons] using hlast
                by_cases ha : a.sp = true
                · simp only [List.dropWhile, ha]; exact ih ht hl'
                · have ha' : a.sp = false := by simpa using ha
                  simp only [List.dropWhile, ha']; exact hlast
        obtain ⟨x, hx1, hx2⟩ := hfirst
        constructor
        · intro h; cases h
        · intro t ht
          cases ht
          refine ⟨?_, fields_ne_nil_of_head _ x hx1 hx2, ?_, hno⟩
          · rw [hsplit, fields_trailing_spaces _ _ htrail]; simp [fields, fieldsAux]
          · rw [← hdata]; simp; exact List.length_pos_iff.mpr hcne
      cases ls with
      | none =>
        apply trimmed
        rintro ⟨r, hr, hsp⟩
        have hr' : r ∈ cur := (List.dropWhile_sublist _).subset (List.mem_reverse.mp hr)
        have := hls r hr'
        rw [this] at hsp; cases hsp
      | some p =>
        obtain ⟨tok, rest'⟩ := p
        obtain ⟨htok, hcat, ⟨s, rs, hrest, hs⟩, hwd⟩ := hls
        simp only
        by_cases hiw : (i : Int) ≥ w
        · simp only [hiw, if_true]
          constructor
          · intro h; cases h
          · intro t ht
            cases ht
            have hx : ∃ x, tok.reverse.head? = some x ∧ x.sp = false := by
              cases htr : tok.reverse with
              | nil => simp at htr; exact absurd htr htok
              | cons a t =>
                refine ⟨a, rfl, hhead a ?_⟩
                rw [← hcat, htr]; rfl
            obtain ⟨x, hx1, hx2⟩ := hx
            refine ⟨?_, fields_ne_nil_of_head _ x hx1 hx2, ?_, fun _ => hwd⟩
            · rw [← hcat, hrest, fields_split_before_space _ _ _ hs]
            · rw [← hcat]; simp; exact List.length_pos_iff.mpr htok
        · simp only [hiw, if_false]
          apply trimmed
          intro _
          have h1 : width (cur.dropWhile (·.sp)).reverse ≤ width cur.reverse := by
            rw [width_reverse, width_reverse]
            have : cur = cur.takeWhile (·.sp) ++ cur.dropWhile (·.sp) := (List.takeWhile_append_dropWhile).symm
            conv => rhs; rw [this, width_append]
            omega
          have : (i : Int) < w := by omega
          omega
    · simp only [hc]
      simp only [Bool.false_eq_true, if_false]
      constructor
      · intro _
        refine ⟨hdata, ?_⟩
        intro he
        have : cur = [] := by
          cases hcn : cur with
          | nil => rfl
          | cons a t => simp [he, hcn] at hc
        rw [← hdata, this]; rfl
      · intro t ht; cases ht
  | cons r rest ih =>
    intro i cur ls hdata hi hls
    unfold scanFrom
    have hdata' : (r :: cur).reverse ++ rest = data := by simpa using hdata
    have hi' : i + r.b.length = lw + width (r :: cur).reverse := by
      rw [List.reverse_cons, width_append, width_cons, width_nil]; omega
    by_cases hr : r.sp = true
    · simp only [hr, if_true]
      -- a blank cannot be the first rune of the data
      have hcne : cur ≠ [] := by
        intro e; subst e
        have := hhead r (by rw [← hdata]; rfl)
        rw [this] at hr; cases hr
      by_cases hiw : (i : Int) ≥ w
      · simp only [hiw, if_true]
        cases ls with
        | none =>
          simp only
          constructor
          · intro h; cases h
          · intro t ht
            cases ht
            have hx : ∃ x, cur.reverse.head? = some x ∧ x.sp = false := by
              cases hcr : cur.reverse with
              | nil => simp at hcr; exact absurd hcr hcne
              | cons a t => exact ⟨a, rfl, hhead a (by rw [← hdata, hcr]; rfl)⟩
            obtain ⟨x, hx1, hx2⟩ := hx
            refine ⟨?_, fields_ne_nil_of_head _ x hx1 hx2, ?_, ?_⟩
            · rw [← hdata, fields_split_before_space _ _ _ hr, fields_leading_space r hr]
            · rw [← hdata]; simp; omega
            · rintro ⟨x, hx, hsp⟩
              have := hls x (List.mem_reverse.mp hx)
              rw [this] at hsp; cases hsp
        | some p =>
          obtain ⟨tok, rest'⟩ := p
          obtain ⟨htok, hcat, ⟨s, rs, hrest, hs⟩, hwd⟩ := hls
          simp only
          constructor
          · intro h; cases h
          · intro t ht
            cases ht
            have hx : ∃ x, tok.reverse.head? = some x ∧ x.sp = false := by
              cases htr : tok.reverse with
              | nil => simp at htr; exact absurd htr htok
              | cons a t => exact ⟨a, rfl, hhead a (by rw [← hcat, htr]; rfl)⟩
            obtain ⟨x, hx1, hx2⟩ := hx
            refine ⟨?_, fields_ne_nil_of_head _ x hx1 hx2, ?_, fun _ => hwd⟩
            · rw [← hcat, hrest, fields_split_before_space _ _ _ hs]
            · rw [← hcat]; simp; exact List.length_pos_iff.mpr htok
      · simp only [hiw, if_false]
        apply ih (i + r.b.length) (r :: cur) (some (cur, r :: rest)) hdata' hi'
        refine ⟨hcne, hdata, ⟨r, rest, rfl, hr⟩, ?_⟩
        have : (i : Int) < w := by omega
        omega
    · have hr' : r.sp = false := by simpa using hr
      simp only [hr', Bool.false_eq_true, if_false]
      apply ih (i + r.b.length) (r :: cur) ls hdata' hi'
      cases ls with
      | none =>
        intro x hx
        rcases List.mem_cons.mp hx with rfl | h
        · exact hr'
        · exact hls x h
      | some p => exact hls

end Pgs.C20

namespace Pgs.C20
/-- the runes a split call returns (token and rest) are runes of the buffered data -/
theorem scanFrom_subset (w : Int) (eof : Bool) : ∀ (rem : List R) (i : Nat) (cur : List R) (ls : LastSpace) (S : List R),
    (∀ r ∈ rem, r ∈ S) → (∀ r ∈ cur, r ∈ S) →
    (match ls with | none => True | some (tok, rest') => (∀ r ∈ tok, r ∈ S) ∧ (∀ r ∈ rest', r ∈ S)) →
    (∀ r ∈ (scanFrom w eof rem i cur ls).rest, r ∈ S) ∧
    (∀ t, (scanFrom w eof rem i cur ls).token = some t → ∀ r ∈ t, r ∈ S) := by
  intro rem
  induction rem with
  | nil =>
    intro i cur ls S _ hc hls
    unfold scanFrom
    split
    · cases ls with
      | none =>
        simp only
        refine ⟨by simp, ?_⟩
        intro t ht; cases ht
        intro r hr
        exact hc r ((List.dropWhile_sublist _).subset (List.mem_reverse.mp hr))
      | some p =>
        obtain ⟨tok, rest'⟩ := p
        simp only at hls ⊢
        split
        · exact ⟨hls.2, by intro t ht; cases ht; intro r hr; exact hls.1 r (List.mem_reverse.mp hr)⟩
        · refine ⟨by simp, ?_⟩
          intro t ht; cases ht
          intro r hr
          exact hc r ((List.dropWhile_sublist _).subset (List.mem_reverse.mp hr))
    · exact ⟨fun r hr => hc r (List.mem_reverse.mp hr), by intro t ht; cases ht⟩
  | cons x rest ih =>
    intro i cur ls S hrem hc hls
    have hx : x ∈ S := hrem x (List.mem_cons_self ..)
    have hrest : ∀ r ∈ rest, r ∈ S := fun r hr => hrem r (List.mem_cons_of_mem _ hr)
    have hc' : ∀ r ∈ x :: cur, r ∈ S := by
      intro r hr; rcases List.mem_cons.mp hr with rfl | h
      · exact hx
      · exact hc r h
    unfold scanFrom
    split
    · split
      · cases ls with
        | none => exact ⟨hrest, by intro t ht; cases ht; intro r hr; exact hc r (List.mem_reverse.mp hr)⟩
        | some p =>
          obtain ⟨tok, rest'⟩ := p
          simp only at hls ⊢
          exact ⟨hls.2, by intro t ht; cases ht; intro r hr; exact hls.1 r (List.mem_reverse.mp hr)⟩
      · exact ih _ _ _ S hrest hc' ⟨hc, hrem⟩
    · exact ih _ _ _ S hrest hc' hls

theorem rest_subset (w : Int) (data : List R) (eof : Bool) : ∀ r ∈ (splitComment w data eof).rest, r ∈ data := by
  have := (scanFrom_subset w eof (data.dropWhile (·.sp)) (width (data.takeWhile (·.sp))) [] none data
    (fun r hr => (List.dropWhile_sublist _).subset hr) (by simp) trivial).1
  exact this

theorem token_subset (w : Int) (data : List R) (eof : Bool) (t : List R) (ht : (splitComment w data eof).token = some t) :
    ∀ r ∈ t, r ∈ data := by
  have := (scanFrom_subset w eof (data.dropWhile (·.sp)) (width (data.takeWhile (·.sp))) [] none data
    (fun r hr => (List.dropWhile_sublist _).subset hr) (by simp) trivial).2
  exact this t ht
end Pgs.C20
