import PgsVerif.Proofs.WalkTree
import PgsVerif.Proofs.PathsNodup
/-!
# C07 — the path-based specification of the Φ checker is the generic walk, for every visitor policy

`specWalk` (Model/Walk) folds `specStep` over the containment pre-order and decides from *paths
alone* (`contains`) which nodes are skipped (below a pruned node), which visitor a node is shown to
(the one handed out by its nearest visited ancestor), and where the walk stops.  `walkForest` is the
recursive reading.  This file proves them equal on every forest that is well-formed for `contains`
(`FWF`), for every policy: pruning, replacing, failing.
-/
namespace Pgs.AST

/-- the forest is well-formed for the containment test `c`: a node contains its contents, and no
    containment runs between a node (or its contents) and the node's later siblings (or theirs) -/
def FWF (c : Ref → Ref → Bool) : Forest → Prop
  | .nil => True
  | .node r k n =>
    (∀ x ∈ k.pre, c r x = true) ∧ (∀ x ∈ k.pre, c x r = false) ∧
    (∀ y ∈ n.pre, c r y = false ∧ c y r = false) ∧
    (∀ x ∈ k.pre, ∀ y ∈ n.pre, c x y = false ∧ c y x = false) ∧ FWF c k ∧ FWF c n

theorem specFold_err (w : World) (pol : Policy) (pass : Bool) (start : Ref) : ∀ (l : List Ref) (st : SpecSt),
    st.err.isSome = true → l.foldl (specStep w pol pass start) st = st := by
  intro l
  induction l with
  | nil => intro st _; rfl
  | cons n l ih =>
    intro st h
    have : specStep w pol pass start st n = st := by simp [specStep, h]
    simp only [List.foldl_cons, this]
    exact ih st h

theorem specFold_pruned (w : World) (pol : Policy) (pass : Bool) (start : Ref) (r : Ref) : ∀ (l : List Ref) (st : SpecSt),
    st.err = none → st.pruned = some r → (∀ x ∈ l, contains w r x = true) →
    l.foldl (specStep w pol pass start) st = st := by
  intro l
  induction l with
  | nil => intro st _ _ _; rfl
  | cons n l ih =>
    intro st h1 h2 h3
    have : specStep w pol pass start st n = st := by
      simp [specStep, h1, h2, h3 n (List.mem_cons_self ..)]
    simp only [List.foldl_cons, this]
    exact ih st h1 h2 (fun x hx => h3 x (List.mem_cons_of_mem _ hx))

theorem dropWhile_junk {α : Type} (p : α → Bool) : ∀ (junk base : List α), (∀ a ∈ junk, p a = true) →
    (junk ++ base).dropWhile p = base.dropWhile p := by
  intro junk
  induction junk with
  | nil => intro base _; rfl
  | cons a junk ih =>
    intro base h
    simp only [List.cons_append, List.dropWhile_cons, h a (List.mem_cons_self ..), if_true]
    exact ih base (fun b hb => h b (List.mem_cons_of_mem _ hb))

/-- the stack below the junk: empty (top level of a walk started with visitor 0), or headed by the
    nearest visited ancestor, which contains everything still to come -/
def BaseOK (w : World) (base : List (Ref × Nat)) (v : Nat) (L : List Ref) : Prop :=
  (base = [] ∧ v = 0) ∨ (∃ a rest, base = (a, v) :: rest ∧ ∀ x ∈ L, contains w a x = true)

theorem BaseOK.mono {w base v L M} (h : BaseOK w base v L) (hs : ∀ x ∈ M, x ∈ L) : BaseOK w base v M := by
  rcases h with h | ⟨a, rest, h1, h2⟩
  · exact .inl h
  · exact .inr ⟨a, rest, h1, fun x hx => h2 x (hs x hx)⟩

theorem BaseOK.top {w base v L} (h : BaseOK w base v L) :
    (match base with | (_, v') :: _ => v' | [] => 0) = v := by
  rcases h with ⟨rfl, rfl⟩ | ⟨a, rest, rfl, _⟩ <;> rfl

theorem WS.eta (ws : WS) : (⟨ws.trace, ws.err⟩ : WS) = ws := by cases ws; rfl

/-- **the fold of `specStep` over a well-formed forest is the recursive walk** -/
theorem specFold_forest (w : World) (pol : Policy) (pass : Bool) (start : Ref) :
    ∀ (t : Forest), FWF (contains w) t → (∀ n ∈ t.pre, (pass && n == start) = false) →
    ∀ (v : Nat) (st : SpecSt) (junk base : List (Ref × Nat)),
      st.vstack = junk ++ base →
      (∀ a ∈ junk, ∀ x ∈ t.pre, contains w a.1 x = false) →
      BaseOK w base v t.pre →
      (∀ p, st.pruned = some p → ∀ x ∈ t.pre, contains w p x = false) →
      ∃ junk',
        (t.pre.foldl (specStep w pol pass start) st).trace = (walkForest pol v t ⟨st.trace, st.err⟩).trace ∧
        (t.pre.foldl (specStep w pol pass start) st).err = (walkForest pol v t ⟨st.trace, st.err⟩).err ∧
        (t.pre.foldl (specStep w pol pass start) st).vstack = junk' ++ base ∧
        (∀ a ∈ junk', a.1 ∈ t.pre ∨ a ∈ junk) ∧
        (∀ p, (t.pre.foldl (specStep w pol pass start) st).pruned = some p → p ∈ t.pre ∨ st.pruned = some p) := by
  intro t
  induction t with
  | nil =>
    intro _ _ v st junk base hv _ _ _
    exact ⟨junk, rfl, rfl, hv, (fun a ha => .inr ha), (fun p hp => .inr hp)⟩
  | node r k n ihk ihn =>
    intro hwf hpass v st junk base hv hjunk hbase hpr
    obtain ⟨wk, wkr, wn, wkn, wfk, wfn⟩ := hwf
    by_cases he : st.err.isSome = true
    · rw [specFold_err _ _ _ _ _ _ he, walkForest_err _ _ _ _ he]
      exact ⟨junk, rfl, rfl, hv, (fun a ha => .inr ha), (fun p hp => .inr hp)⟩
    · have he' : st.err = none := by simpa using he
      obtain ⟨tr, vs, pr, er⟩ := st
      simp only at he' hv hpr
      subst he' hv
      simp only [Forest.pre, List.foldl_cons, List.foldl_append]
      have hmemr : r ∈ (Forest.node r k n).pre := by simp [Forest.pre]
      have hmemk : ∀ x ∈ k.pre, x ∈ (Forest.node r k n).pre := by intro x hx; simp [Forest.pre, hx]
      have hmemn : ∀ x ∈ n.pre, x ∈ (Forest.node r k n).pre := by intro x hx; simp [Forest.pre, hx]
      -- the step at r
      have hdrop : ((junk ++ base).dropWhile fun (x : Ref × Nat) => !contains w x.1 r) = base := by
        rw [dropWhile_junk _ junk base (by intro a ha; simp [hjunk a ha r hmemr])]
        rcases hbase with ⟨rfl, _⟩ | ⟨a, rest, rfl, hc⟩
        · rfl
        · simp [List.dropWhile_cons, hc r hmemr]
      have hstep : specStep w pol pass start ⟨tr, junk ++ base, pr, none⟩ r =
          (match pol.act r with
           | .same => ⟨(r, v) :: tr, (r, v) :: base, none, none⟩
           | .replace u => ⟨(r, v) :: tr, (r, u) :: base, none, none⟩
           | .prune => ⟨(r, v) :: tr, base, some r, none⟩
           | .failNil => ⟨(r, v) :: tr, base, none, some r⟩
           | .failKeep => ⟨(r, v) :: tr, base, none, some r⟩) := by
        have hp := hpass r hmemr
        unfold specStep
        simp only [Option.isSome_none, Bool.false_eq_true, if_false, hp, hdrop]
        rcases hbase with ⟨rfl, rfl⟩ | ⟨a, rest, rfl, _⟩ <;>
          (cases hq' : pr with
           | none => cases pol.act r <;> rfl
           | some q => have := hpr q hq' r hmemr; simp only [this, Bool.false_eq_true, if_false]; cases pol.act r <;> rfl)
      rw [hstep]
      simp only [walkForest, Option.isSome_none, Bool.false_eq_true, if_false, visit]
      -- the part common to "contents are walked with visitor v1"
      have descend : ∀ v1 : Nat,
          ∃ junk',
            (n.pre.foldl (specStep w pol pass start) (k.pre.foldl (specStep w pol pass start)
                ⟨(r, v) :: tr, (r, v1) :: base, none, none⟩)).trace
              = (walkForest pol v n (walkForest pol v1 k ⟨(r, v) :: tr, none⟩)).trace ∧
            (n.pre.foldl (specStep w pol pass start) (k.pre.foldl (specStep w pol pass start)
                ⟨(r, v) :: tr, (r, v1) :: base, none, none⟩)).err
              = (walkForest pol v n (walkForest pol v1 k ⟨(r, v) :: tr, none⟩)).err ∧
            (n.pre.foldl (specStep w pol pass start) (k.pre.foldl (specStep w pol pass start)
                ⟨(r, v) :: tr, (r, v1) :: base, none, none⟩)).vstack = junk' ++ base ∧
            (∀ a ∈ junk', a.1 ∈ (Forest.node r k n).pre ∨ a ∈ junk) ∧
            (∀ p, (n.pre.foldl (specStep w pol pass start) (k.pre.foldl (specStep w pol pass start)
                ⟨(r, v) :: tr, (r, v1) :: base, none, none⟩)).pruned = some p →
              p ∈ (Forest.node r k n).pre ∨ pr = some p) := by
        intro v1
        obtain ⟨jk, k1, k2, k3, k4, k5⟩ := ihk wfk (fun x hx => hpass x (hmemk x hx)) v1
          ⟨(r, v) :: tr, (r, v1) :: base, none, none⟩ [] ((r, v1) :: base) rfl
          (by intro a ha; cases ha) (.inr ⟨r, base, rfl, wk⟩) (by intro p hp; cases hp)
        simp only at k1 k2 k3 k4 k5
        obtain ⟨jn, n1, n2, n3, n4, n5⟩ := ihn wfn (fun x hx => hpass x (hmemn x hx)) v
          (k.pre.foldl (specStep w pol pass start) ⟨(r, v) :: tr, (r, v1) :: base, none, none⟩)
          (jk ++ [(r, v1)]) base (by rw [k3]; simp)
          (by
            intro a ha x hx
            rcases List.mem_append.mp ha with ha | ha
            · rcases k4 a ha with h | h
              · exact (wkn a.1 h x hx).1
              · cases h
            · simp only [List.mem_singleton] at ha; subst ha; exact (wn x hx).1)
          (hbase.mono hmemn)
          (by
            intro p hp x hx
            rcases k5 p hp with h | h
            · exact (wkn p h x hx).1
            · cases h)
        rw [k1, k2, WS.eta] at n1 n2
        refine ⟨jn, n1, n2, n3, ?_, ?_⟩
        · intro a ha
          rcases n4 a ha with h | h
          · exact .inl (hmemn _ h)
          · rcases List.mem_append.mp h with h | h
            · rcases k4 a h with h | h
              · exact .inl (hmemk _ h)
              · cases h
            · simp only [List.mem_singleton] at h; subst h; exact .inl hmemr
        · intro p hp
          rcases n5 p hp with h | h
          · exact .inl (hmemn _ h)
          · rcases k5 p h with h | h
            · exact .inl (hmemk _ h)
            · cases h
      cases ha : pol.act r with
      | same => simpa [Forest.pre] using descend v
      | replace u => simpa [Forest.pre] using descend u
      | prune =>
        simp only
        rw [specFold_pruned w pol pass start r k.pre _ rfl rfl wk]
        obtain ⟨jn, n1, n2, n3, n4, n5⟩ := ihn wfn (fun x hx => hpass x (hmemn x hx)) v
          ⟨(r, v) :: tr, base, some r, none⟩ [] base rfl
          (by intro a ha; cases ha) (hbase.mono hmemn)
          (by intro p hp x hx; simp only [Option.some.injEq] at hp; subst hp; exact (wn x hx).1)
        refine ⟨jn, n1, n2, n3, ?_, ?_⟩
        · intro a ha
          rcases n4 a ha with h | h
          · exact .inl (by simpa [Forest.pre] using Or.inr (Or.inr h))
          · cases h
        · intro p hp
          rcases n5 p hp with h | h
          · exact .inl (by simpa [Forest.pre] using Or.inr (Or.inr h))
          · simp only [Option.some.injEq] at h; subst h; exact .inl (by simp)
      | failNil =>
        simp only
        rw [specFold_err _ _ _ _ k.pre _ rfl, specFold_err _ _ _ _ n.pre _ rfl, walkForest_err _ _ _ _ rfl]
        exact ⟨[], rfl, rfl, rfl, (by intro a ha; cases ha), (by intro p hp; cases hp)⟩
      | failKeep =>
        simp only [Option.isSome_some, if_true]
        rw [specFold_err _ _ _ _ k.pre _ rfl, specFold_err _ _ _ _ n.pre _ rfl, walkForest_err _ _ _ _ rfl]
        exact ⟨[], rfl, rfl, rfl, (by intro a ha; cases ha), (by intro p hp; cases hp)⟩

end Pgs.AST

/-! ### the forests of a request are well-formed for `contains` -/
namespace Pgs.AST

def Forest.roots : Forest → List Ref
  | .nil => []
  | .node r _ n => r :: n.roots

theorem Forest.roots_sub_pre : ∀ (t : Forest), ∀ s ∈ t.roots, s ∈ t.pre := by
  intro t
  induction t with
  | nil => intro s hs; cases hs
  | node r k n _ ihn =>
    intro s hs
    rcases List.mem_cons.mp hs with rfl | hs
    · simp [Forest.pre]
    · simp [Forest.pre, ihn s hs]

theorem Forest.roots_append (a b : Forest) : (a.append b).roots = a.roots ++ b.roots := by
  induction a with
  | nil => rfl
  | node r k n _ ih2 => simp [Forest.append, Forest.roots, ih2]

/-- `t` hangs below path `q` of file `fi`: every root is `q ++ [field, index]`, and so on downwards -/
inductive PF (fi : Nat) : List Nat → Forest → Prop
  | nil (q : List Nat) : PF fi q .nil
  | node (q : List Nat) (a i : Nat) (k n : Forest) :
      PF fi (q ++ [a, i]) k → PF fi q n → PF fi q (.node ⟨fi, q ++ [a, i]⟩ k n)

theorem PF.append {fi q a b} (ha : PF fi q a) (hb : PF fi q b) : PF fi q (a.append b) := by
  induction ha with
  | nil q => exact hb
  | node q a i k n hk _ _ ihn => exact PF.node q a i k _ hk (ihn hb)

theorem PF_leaves (fi : Nat) (p : List Nat) (tag : Nat) : ∀ (l : List Nat),
    PF fi p (leavesF (l.map fun i => (⟨fi, p ++ [tag, i]⟩ : Ref))) := by
  intro l
  induction l with
  | nil => exact PF.nil p
  | cons i l ih => exact PF.node p tag i .nil _ (PF.nil _) ih

theorem PF_childRefs (fi : Nat) (p : List Nat) (tag n : Nat) : PF fi p (leavesF (childRefs fi p tag n)) :=
  PF_leaves fi p tag (List.range n)

theorem PF_enumsF (fi : Nat) (p : List Nat) (tag : Nat) : ∀ (es : List EnumD) (i : Nat), PF fi p (enumsF fi p tag i es) := by
  intro es
  induction es with
  | nil => intro i; exact PF.nil p
  | cons e es ih => intro i; exact PF.node p tag i _ _ (PF_childRefs ..) (ih (i+1))

theorem PF_servicesF (fi : Nat) : ∀ (ss : List ServiceD) (i : Nat), PF fi [] (servicesF fi i ss) := by
  intro ss
  induction ss with
  | nil => intro i; exact PF.nil []
  | cons s ss ih => intro i; exact PF.node [] 6 i _ _ (PF_childRefs ..) (ih (i+1))

theorem PF_msgsF (fi : Nat) : ∀ (ms : Msgs) (p : List Nat) (tag i : Nat), PF fi p (msgsF fi p tag i ms) := by
  intro ms
  induction ms with
  | nil => intro p tag i; exact PF.nil p
  | cons h nested rest ih1 ih2 =>
    intro p tag i
    simp only [msgsF]
    by_cases hm : h.mapEntry = true
    · simp only [hm, if_true]; exact ih2 p tag (i+1)
    · simp only [hm, Bool.false_eq_true, if_false]
      exact PF.node p tag i _ _
        ((PF_enumsF ..).append ((ih1 _ 3 0).append ((PF_childRefs ..).append ((PF_childRefs ..).append (PF_childRefs ..)))))
        (ih2 p tag (i+1))

theorem PF_fileKids (fi : Nat) (f : FileD) : PF fi [] (fileKidsF fi f) :=
  (PF_enumsF fi [] 5 f.enums 0).append ((PF_msgsF fi f.msgs [] 4 0).append ((PF_servicesF fi f.services 0).append (PF_childRefs ..)))

theorem PF.root_shape {fi q t} (h : PF fi q t) : ∀ s ∈ t.roots, ∃ a i, s = ⟨fi, q ++ [a, i]⟩ := by
  induction h with
  | nil q => intro s hs; cases hs
  | node q a i k n _ _ _ ihn =>
    intro s hs
    rcases List.mem_cons.mp hs with rfl | hs
    · exact ⟨a, i, rfl⟩
    · exact ihn s hs

/-- everything in the forest is a root or lies below one -/
theorem PF.mem_below {fi q t} (h : PF fi q t) : ∀ x ∈ t.pre, x.file = fi ∧ ∃ s ∈ t.roots, ∃ rest, x.path = s.path ++ rest := by
  induction h with
  | nil q => intro x hx; cases hx
  | node q a i k n _ _ ihk ihn =>
    intro x hx
    simp only [Forest.pre, List.mem_cons, List.mem_append] at hx
    rcases hx with (rfl | hx) | hx
    · exact ⟨rfl, _, List.mem_cons_self .., [], by simp⟩
    · obtain ⟨h1, s, hs, rest, hp⟩ := ihk x hx
      obtain ⟨a', i', rfl⟩ := PF.root_shape ‹_› s hs
      exact ⟨h1, _, List.mem_cons_self .., [a', i'] ++ rest, by rw [hp]; simp⟩
    · obtain ⟨h1, s, hs, rest, hp⟩ := ihn x hx
      exact ⟨h1, s, List.mem_cons_of_mem _ hs, rest, hp⟩

theorem contains_len_false (w : World) (a b : Ref) (hfi : a.file < 900000) (h : b.path.length ≤ a.path.length) :
    contains w a b = false := by
  have hge : ¬ (a.file ≥ 900000) := by omega
  have : ¬ (a.path.length < b.path.length) := by omega
  simp [contains, hge, this]

theorem contains_below_true (w : World) (a b : Ref) (hfi : a.file < 900000) (hf : a.file = b.file)
    (t : List Nat) (ht : t ≠ []) (hp : b.path = a.path ++ t) : contains w a b = true := by
  have hge : ¬ (a.file ≥ 900000) := by omega
  have hl : 0 < t.length := List.length_pos_iff.mpr ht
  have hb : b.file < 900000 := hf ▸ hfi
  simp [contains, hf, hp, hl, hb]

theorem contains_diverge_false (w : World) (a b : Ref) (hfi : a.file < 900000) (q u v : List Nat) (a1 i1 a2 i2 : Nat)
    (ha : a.path = q ++ [a1, i1] ++ u) (hb : b.path = q ++ [a2, i2] ++ v) (hne : ¬ (a1 = a2 ∧ i1 = i2)) :
    contains w a b = false := by
  have hge : ¬ (a.file ≥ 900000) := by omega
  cases hc : contains w a b with
  | false => rfl
  | true =>
    exfalso
    simp only [contains, hge, if_false, Bool.and_eq_true, beq_iff_eq, decide_eq_true_eq] at hc
    have h3 := hc.2
    have : b.path = a.path ++ b.path.drop a.path.length := by
      conv => lhs; rw [← List.take_append_drop a.path.length b.path]
      rw [h3]
    rw [ha, hb] at this
    simp only [List.append_assoc] at this
    have := List.append_cancel_left this
    simp only [List.cons_append, List.nil_append, List.cons.injEq] at this
    exact hne ⟨this.1.symm, this.2.1.symm⟩

/-- **a path-structured forest without repetition is well-formed for `contains`** -/
theorem PF.fwf (w : World) {fi q t} (h : PF fi q t) (hfi : fi < 900000) : t.pre.Nodup → FWF (contains w) t := by
  induction h with
  | nil q => intro _; trivial
  | node q a i k n hk hn ihk ihn =>
    intro hnd
    simp only [Forest.pre] at hnd
    obtain ⟨hnd1, hndn, hdis⟩ := List.nodup_append.mp hnd
    have hndk : k.pre.Nodup := (List.nodup_cons.mp hnd1).2
    have hrn : (⟨fi, q ++ [a, i]⟩ : Ref) ∉ n.pre := fun hm => hdis _ (List.mem_cons_self ..) _ hm rfl
    -- shapes
    have kshape : ∀ x ∈ k.pre, x.file = fi ∧ ∃ a' i' rest, x.path = q ++ [a, i] ++ [a', i'] ++ rest := by
      intro x hx
      obtain ⟨h1, s, hs, rest, hp⟩ := hk.mem_below x hx
      obtain ⟨a', i', rfl⟩ := hk.root_shape s hs
      exact ⟨h1, a', i', rest, by rw [hp]⟩
    have nshape : ∀ y ∈ n.pre, y.file = fi ∧ ∃ a' i' rest, y.path = q ++ [a', i'] ++ rest ∧ ¬ (a = a' ∧ i = i') := by
      intro y hy
      obtain ⟨h1, s, hs, rest, hp⟩ := hn.mem_below y hy
      obtain ⟨a', i', rfl⟩ := hn.root_shape s hs
      refine ⟨h1, a', i', rest, by rw [hp], ?_⟩
      rintro ⟨rfl, rfl⟩
      exact hrn (Forest.roots_sub_pre n _ hs)
    refine ⟨?_, ?_, ?_, ?_, ihk hndk, ihn hndn⟩
    · intro x hx
      obtain ⟨h1, a', i', rest, hp⟩ := kshape x hx
      exact contains_below_true w _ x hfi h1.symm ([a', i'] ++ rest) (by simp) (by rw [hp]; simp)
    · intro x hx
      obtain ⟨h1, a', i', rest, hp⟩ := kshape x hx
      exact contains_len_false w x _ (by omega) (by rw [hp]; simp)
    · intro y hy
      obtain ⟨h1, a', i', rest, hp, hne⟩ := nshape y hy
      constructor
      · exact contains_diverge_false w _ y hfi q [] rest a i a' i' (by simp) hp hne
      · exact contains_len_false w y _ (by omega) (by rw [hp]; simp)
    · intro x hx y hy
      obtain ⟨h1, a1, i1, rest1, hp1⟩ := kshape x hx
      obtain ⟨h2, a', i', rest, hp, hne⟩ := nshape y hy
      constructor
      · exact contains_diverge_false w x y (by omega) q ([a1, i1] ++ rest1) rest a i a' i' (by rw [hp1]; simp) hp hne
      · exact contains_diverge_false w y x (by omega) q rest ([a1, i1] ++ rest1) a' i' a i hp (by rw [hp1]; simp)
          (by rintro ⟨rfl, rfl⟩; exact hne ⟨rfl, rfl⟩)

theorem fileF_fwf (w : World) (fi : Nat) (f : FileD) (hfi : fi < 900000) : FWF (contains w) (fileF fi f) := by
  have hk := PF_fileKids fi f
  have hnd := fileF_nodup fi f
  simp only [fileF, Forest.pre, List.append_nil] at hnd
  have kshape : ∀ x ∈ (fileKidsF fi f).pre, x.file = fi ∧ ∃ a' i' rest, x.path = [a', i'] ++ rest := by
    intro x hx
    obtain ⟨h1, s, hs, rest, hp⟩ := hk.mem_below x hx
    obtain ⟨a', i', rfl⟩ := hk.root_shape s hs
    exact ⟨h1, a', i', rest, by rw [hp]; simp⟩
  refine ⟨?_, ?_, ?_, ?_, hk.fwf w hfi (List.nodup_cons.mp hnd).2, trivial⟩
  · intro x hx
    obtain ⟨h1, a', i', rest, hp⟩ := kshape x hx
    exact contains_below_true w _ x hfi h1.symm ([a', i'] ++ rest) (by simp) (by rw [hp]; simp)
  · intro x hx
    obtain ⟨h1, a', i', rest, hp⟩ := kshape x hx
    exact contains_len_false w x _ (by omega) (by simp)
  · intro y hy; cases hy
  · intro x _ y hy; cases hy

end Pgs.AST

/-! ### sub-trees: what the path test selects is the sub-tree's pre-order -/
namespace Pgs.AST

/-- the node `r` with contents `k` occurs in the forest -/
inductive Sub : Forest → Ref → Forest → Prop
  | here (r k n) : Sub (.node r k n) r k
  | kid (r' k' n' r k) : Sub k' r k → Sub (.node r' k' n') r k
  | next (r' k' n' r k) : Sub n' r k → Sub (.node r' k' n') r k

theorem Sub.mem {t r k} (h : Sub t r k) : r ∈ t.pre := by
  induction h with
  | here r k n => simp [Forest.pre]
  | kid r' k' n' r k _ ih => simp [Forest.pre, ih]
  | next r' k' n' r k _ ih => simp [Forest.pre, ih]

theorem Sub.append_left {a r k} (b : Forest) (h : Sub a r k) : Sub (a.append b) r k := by
  induction h with
  | here r k n => exact Sub.here ..
  | kid r' k' n' r k h _ => exact Sub.kid _ _ _ _ _ h
  | next r' k' n' r k _ ih => exact Sub.next _ _ _ _ _ ih

theorem Sub.append_right (a : Forest) {b r k} (h : Sub b r k) : Sub (a.append b) r k := by
  induction a with
  | nil => exact h
  | node r' k' n' _ ih2 => exact Sub.next _ _ _ _ _ ih2

theorem Sub.fwf {c t r k} (h : Sub t r k) : FWF c t → FWF c (.node r k .nil) := by
  induction h with
  | here r k n =>
    intro ⟨a, b, _, _, e, _⟩
    exact ⟨a, b, (by intro y hy; cases hy), (by intro x _ y hy; cases hy), e, trivial⟩
  | kid r' k' n' r k _ ih => intro ⟨_, _, _, _, e, _⟩; exact ih e
  | next r' k' n' r k _ ih => intro ⟨_, _, _, _, _, e⟩; exact ih e

theorem filter_none {α : Type} (p : α → Bool) (l : List α) (h : ∀ x ∈ l, p x = false) : l.filter p = [] := by
  apply List.filter_eq_nil_iff.mpr
  intro x hx; simp [h x hx]

/-- **selecting by the path test gives the sub-tree's pre-order** -/
theorem Sub.filter {c : Ref → Ref → Bool} {t r k} (h : Sub t r k) : FWF c t → t.pre.Nodup →
    t.pre.filter (fun x => x == r || c r x) = r :: k.pre := by
  induction h with
  | here r k n =>
    intro ⟨wk, _, wn, _, _, _⟩ hnd
    simp only [Forest.pre] at hnd ⊢
    obtain ⟨_, _, hdis⟩ := List.nodup_append.mp hnd
    rw [List.filter_append, List.filter_cons]
    have h1 : k.pre.filter (fun x => x == r || c r x) = k.pre :=
      List.filter_eq_self.mpr (fun x hx => by simp [wk x hx])
    have h2 : n.pre.filter (fun x => x == r || c r x) = [] :=
      filter_none _ _ (fun y hy => by
        have : y ≠ r := fun e => hdis r (List.mem_cons_self ..) y hy e.symm
        simp [this, (wn y hy).1])
    simp [h1, h2]
  | kid r' k' n' r k hs ih =>
    intro ⟨_, wkr, _, wkn, wfk, _⟩ hnd
    simp only [Forest.pre] at hnd ⊢
    obtain ⟨hnd1, _, hdis⟩ := List.nodup_append.mp hnd
    have hr := hs.mem
    have hne : r' ≠ r := fun e => (List.nodup_cons.mp hnd1).1 (e ▸ hr)
    rw [List.filter_append, List.filter_cons]
    have h2 : n'.pre.filter (fun x => x == r || c r x) = [] :=
      filter_none _ _ (fun y hy => by
        have : y ≠ r := fun e => hdis r (List.mem_cons_of_mem _ hr) y hy e.symm
        simp [this, (wkn r hr y hy).1])
    simp [hne, wkr r hr, h2, ih wfk (List.nodup_cons.mp hnd1).2]
  | next r' k' n' r k hs ih =>
    intro ⟨_, _, wn, wkn, _, wfn⟩ hnd
    simp only [Forest.pre] at hnd ⊢
    obtain ⟨hnd1, hndn, hdis⟩ := List.nodup_append.mp hnd
    have hr := hs.mem
    have hne : r' ≠ r := fun e => hdis r' (List.mem_cons_self ..) r hr e
    rw [List.filter_append, List.filter_cons]
    have h1 : k'.pre.filter (fun x => x == r || c r x) = [] :=
      filter_none _ _ (fun x hx => by
        have : x ≠ r := fun e => hdis x (List.mem_cons_of_mem _ hx) r hr e
        simp [this, (wkn x hx r hr).2])
    simp [hne, (wn r hr).2, h1, ih wfn hndn]

end Pgs.AST
