import PgsVerif.Model.NameSplit
/-!
# C15 — the camel-case scanner cuts exactly at the documented word boundaries

`camel` is the transcription of the scanner in `Name.Split` (state: completed parts, buffer, `capt`,
`lodash`, `num`; the acronym rule moves the last capital to the next word *retroactively*).
`specCamel` cuts the name at the positions `boundary` declares from the runes around each position.
This file proves them equal for every name without dots whose only underscore is a leading one and
every classification in which no rune is both upper/title and digit.
-/
namespace Pgs.C15

/-! ### segmentations and their cut positions -/
/-- start positions of the segments after the first: cumulative lengths -/
def cumFrom : Nat → List Runes → List Nat
  | _, [] => []
  | off, p :: ps => (off + p.length) :: cumFrom (off + p.length) ps

theorem cumFrom_append (off : Nat) (ps : List Runes) (p : Runes) :
    cumFrom off (ps ++ [p]) = cumFrom off ps ++ [off + (ps ++ [p]).flatten.length] := by
  induction ps generalizing off with
  | nil => simp [cumFrom]
  | cons q ps ih =>
    simp only [List.cons_append, cumFrom, ih, List.flatten_cons, List.length_append]
    simp [Nat.add_assoc]

/-- a segmentation is determined by the sequence it covers and its cut positions -/
theorem seg_unique : ∀ (ps qs : List Runes) (b c : Runes) (off : Nat),
    ps.flatten ++ b = qs.flatten ++ c → cumFrom off ps = cumFrom off qs → ps = qs ∧ b = c := by
  intro ps
  induction ps with
  | nil =>
    intro qs b c off h1 h2
    cases qs with
    | nil => simpa using h1
    | cons q qs => simp [cumFrom] at h2
  | cons p ps ih =>
    intro qs b c off h1 h2
    cases qs with
    | nil => simp [cumFrom] at h2
    | cons q qs =>
      simp only [cumFrom, List.cons.injEq] at h2
      have hl : p.length = q.length := by omega
      simp only [List.flatten_cons, List.append_assoc] at h1
      have := List.append_inj h1 hl
      obtain ⟨e1, e2⟩ := this
      subst e1
      obtain ⟨a, b'⟩ := ih qs b c (off + p.length) e2 (by rw [hl] at h2 ⊢; exact h2.2)
      exact ⟨by rw [a], b'⟩

/-! ### the declarative cut as a segmentation -/
/-- `cutAux` from position `i` with current word `cur`: the completed parts and the last word -/
theorem cutAux_spec (b : Nat → Bool) : ∀ (rs : Runes) (i : Nat) (cur : Runes),
    ∃ ps last, cutAux b i rs cur = ps ++ [last] ∧ ps.flatten ++ last = cur ++ rs ∧
      ∀ off, off + cur.length = i →
        cumFrom off ps = ((List.range rs.length).map (· + i)).filter (fun j => decide (j ≠ 0) && b j) := by
  intro rs
  induction rs with
  | nil => intro i cur; exact ⟨[], cur, rfl, by simp, fun off _ => by simp [cumFrom]⟩
  | cons r rs ih =>
    intro i cur
    have hrange : (List.range (r :: rs).length).map (· + i) = i :: (List.range rs.length).map (· + (i+1)) := by
      simp only [List.length_cons, List.range_succ_eq_map, List.map_cons, List.map_map, Nat.zero_add]
      congr 1
      apply List.map_congr_left
      intro x _
      simp only [Function.comp]; omega
    by_cases hb : i ≠ 0 ∧ b i = true
    · have hcut : cutAux b i (r :: rs) cur = cur :: cutAux b (i+1) rs [r] := by
        simp only [cutAux]; rw [if_pos hb]
      obtain ⟨ps, last, e, f, c⟩ := ih (i+1) [r]
      refine ⟨cur :: ps, last, by rw [hcut, e]; rfl, by simp [f], ?_⟩
      intro off hoff
      rw [hrange]
      simp only [cumFrom, List.filter_cons]
      have : (decide (i ≠ 0) && b i) = true := by simp [hb.1, hb.2]
      simp only [this, if_true, hoff]
      congr 1
      exact c i (by simp)
    · have hcut : cutAux b i (r :: rs) cur = cutAux b (i+1) rs (cur ++ [r]) := by
        simp only [cutAux]; rw [if_neg hb]
      obtain ⟨ps, last, e, f, c⟩ := ih (i+1) (cur ++ [r])
      refine ⟨ps, last, by rw [hcut, e], by simp [f], ?_⟩
      intro off hoff
      rw [hrange]
      simp only [List.filter_cons]
      have : (decide (i ≠ 0) && b i) = false := by
        by_cases h0 : i = 0
        · simp [h0]
        · have : b i ≠ true := fun h => hb ⟨h0, h⟩
          simp [this]
      simp only [this]
      exact c off (by simp; omega)

end Pgs.C15

/-! ### the boundary clauses -/
namespace Pgs.C15
section
variable (up dg : Nat → Bool) (rs : Runes)

def uAt (k : Nat) : Bool := match rs[k]? with | some r => up r | none => false
def dAt (k : Nat) : Bool := match rs[k]? with | some r => dg r | none => false
def lead : Bool := rs.head? == some underscore
def sh (i : Nat) : Bool := lead rs && i == 1
def c1 (i : Nat) : Bool := uAt up rs i && !uAt up rs (i-1) && !sh rs i
def c2 (i : Nat) : Bool := dAt dg rs i && !dAt dg rs (i-1) && !sh rs i
def c3 (i : Nat) : Bool := !dAt dg rs i && dAt dg rs (i-1)
def c4 (i : Nat) : Bool :=
  uAt up rs i && decide (i + 1 < rs.length) && !uAt up rs (i+1) && !dAt dg rs (i+1) && !sh rs i

theorem boundary_eq (i : Nat) :
    boundary up dg rs i = (c1 up rs i || c2 dg rs i || c3 dg rs i || c4 up dg rs i) := rfl

/-- the boundaries known after reading `k` runes: at the last position read the acronym clause,
    which looks one rune ahead, is still pending -/
def Bk (k i : Nat) : Bool :=
  if i + 1 = k then (c1 up rs i || c2 dg rs i || c3 dg rs i) else boundary up dg rs i

def cutsUpTo (k : Nat) (B : Nat → Bool) : List Nat := (List.range k).filter fun i => decide (i ≠ 0) && B i

theorem filter_congr_mem {α} {p q : α → Bool} : ∀ {l : List α}, (∀ x ∈ l, p x = q x) → l.filter p = l.filter q := by
  intro l
  induction l with
  | nil => intro _; rfl
  | cons a l ih =>
    intro h
    simp only [List.filter_cons, h a (List.mem_cons_self ..)]
    rw [ih (fun x hx => h x (List.mem_cons_of_mem _ hx))]

/-- reading one more rune can only add the pending acronym boundary at the previous position -/
theorem cuts_same (k : Nat) (h : k = 1 ∨ c4 up dg rs (k-1) = false ∨ Bk up dg rs k (k-1) = true) :
    cutsUpTo k (Bk up dg rs (k+1)) = cutsUpTo k (Bk up dg rs k) := by
  unfold cutsUpTo
  apply filter_congr_mem
  intro i hi
  have hi' : i < k := List.mem_range.mp hi
  by_cases h0 : i = 0
  · simp [h0]
  congr 1
  unfold Bk
  have hne : ¬ (i + 1 = k + 1) := by omega
  simp only [hne, if_false]
  by_cases hik : i + 1 = k
  · simp only [hik, if_true]
    have hki : k - 1 = i := by omega
    rcases h with h | h | h
    · omega
    · rw [hki] at h; rw [boundary_eq, h]; simp
    · rw [hki] at h; unfold Bk at h; simp only [hik, if_true] at h
      rw [boundary_eq, h]; simp
  · simp [hik]

theorem cuts_retro (k : Nat) (hk : 2 ≤ k) (h4 : c4 up dg rs (k-1) = true) :
    cutsUpTo k (Bk up dg rs (k+1)) = cutsUpTo (k-1) (Bk up dg rs k) ++ [k-1] := by
  obtain ⟨m, rfl⟩ : ∃ m, k = m + 1 := ⟨k - 1, by omega⟩
  simp only [Nat.add_sub_cancel] at h4 ⊢
  unfold cutsUpTo
  rw [List.range_succ, List.filter_append]
  congr 1
  · apply filter_congr_mem
    intro i hi
    have hi' : i < m := List.mem_range.mp hi
    unfold Bk
    have h1 : i ≠ m + 1 := by omega
    have h2 : i ≠ m := by omega
    simp [h1, h2]
  · have hm : m ≠ 0 := by omega
    unfold Bk
    have h1 : ¬ (m + 1 = m + 1 + 1) := by omega
    simp [h1, hm, boundary_eq, h4]

theorem cuts_old (k : Nat) (hk : 2 ≤ k) (hb : Bk up dg rs k (k-1) = false) :
    cutsUpTo k (Bk up dg rs k) = cutsUpTo (k-1) (Bk up dg rs k) := by
  obtain ⟨m, rfl⟩ : ∃ m, k = m + 1 := ⟨k - 1, by omega⟩
  simp only [Nat.add_sub_cancel] at hb ⊢
  unfold cutsUpTo
  rw [List.range_succ, List.filter_append]
  simp [hb]

theorem cuts_succ (k : Nat) (B : Nat → Bool) :
    cutsUpTo (k+1) B = cutsUpTo k B ++ (if (decide (k ≠ 0) && B k) = true then [k] else []) := by
  unfold cutsUpTo
  rw [List.range_succ, List.filter_append]
  congr 1
  simp only [List.filter_cons, List.filter_nil]

end
end Pgs.C15

/-! ### the scanner invariant -/
namespace Pgs.C15
section
variable (up dg : Nat → Bool) (rs : Runes)

structure Inv (k : Nat) (s : St) : Prop where
  cover : s.parts.flatten ++ s.buf = rs.take k
  cuts : cumFrom 0 s.parts = cutsUpTo k (Bk up dg rs k)
  capt : s.capt = uAt up rs (k-1)
  num : s.num = dAt dg rs (k-1)
  lodash : s.lodash = sh rs k
  long : decide (s.buf.length > 1) = (decide (k ≥ 2) && !Bk up dg rs k (k-1))
  nonempty : s.buf ≠ []
  head_ : (s.buf.head? == some underscore) = (lead rs && decide (s.buf.length = k))
  tail_ : ∀ x ∈ s.buf.drop 1, x ≠ underscore

def pushSt (s : St) (r : Nat) : St :=
  { parts := s.parts ++ [s.buf], buf := [r], capt := up r, lodash := false, num := dg r }
def keepSt (s : St) (r : Nat) : St :=
  { parts := s.parts, buf := s.buf ++ [r], capt := up r, lodash := false, num := dg r }
def retroSt (s : St) (pr r : Nat) : St :=
  { parts := s.parts ++ [s.buf.dropLast], buf := [pr, r], capt := up r, lodash := false, num := dg r }

variable {up dg rs}

theorem take_succ' {k r : Nat} (hr : rs[k]? = some r) : rs.take (k+1) = rs.take k ++ [r] := by
  rw [List.take_succ, hr]; rfl

theorem len_of_cover {k : Nat} {s : St} (hk : k ≤ rs.length) (h : s.parts.flatten ++ s.buf = rs.take k) :
    s.parts.flatten.length + s.buf.length = k := by
  have := congrArg List.length h
  simp only [List.length_append, List.length_take] at this
  omega

theorem uAt_of {k r : Nat} (hr : rs[k]? = some r) : uAt up rs k = up r := by simp [uAt, hr]
theorem dAt_of {k r : Nat} (hr : rs[k]? = some r) : dAt dg rs k = dg r := by simp [dAt, hr]

theorem Bk_last (k : Nat) : Bk up dg rs (k+1) k = (c1 up rs k || c2 dg rs k || c3 dg rs k) := by
  simp [Bk]

theorem inv_push {k r : Nat} {s : St} (h : Inv up dg rs k s) (hr : rs[k]? = some r) (hk1 : 1 ≤ k) (hkn : k < rs.length)
    (hru : r ≠ underscore)
    (hc : (c1 up rs k || c2 dg rs k || c3 dg rs k) = true)
    (h4 : k = 1 ∨ c4 up dg rs (k-1) = false ∨ Bk up dg rs k (k-1) = true) :
    Inv up dg rs (k+1) (pushSt up dg s r) := by
  have hlen := len_of_cover (Nat.le_of_lt hkn) h.cover
  refine ⟨?_, ?_, ?_, ?_, ?_, ?_, ?_, ?_, ?_⟩
  · simp only [pushSt, List.flatten_append, List.flatten_cons, List.flatten_nil, List.append_nil]
    rw [take_succ' hr, h.cover]
  · simp only [pushSt]
    rw [cumFrom_append, h.cuts, cuts_succ, Bk_last, hc, cuts_same up dg rs k h4]
    have hk0 : k ≠ 0 := by omega
    simp only [List.flatten_append, List.flatten_cons, List.flatten_nil, List.append_nil, List.length_append, hlen,
      Nat.zero_add, hk0, ne_eq, not_false_eq_true, decide_true, Bool.and_self, if_true]
  · simp [pushSt, uAt_of hr]
  · simp [pushSt, dAt_of hr]
  · have hk0 : k ≠ 0 := by omega
    simp [pushSt, sh, hk0]
  · simp only [pushSt, Nat.add_sub_cancel, Bk_last, hc]
    simp
  · simp [pushSt]
  · have hk0 : k ≠ 0 := by omega
    have hr' : (r == underscore) = false := by simp [hru]
    simp [pushSt, hr', hk0]
  · simp [pushSt]

theorem inv_keep {k r : Nat} {s : St} (h : Inv up dg rs k s) (hr : rs[k]? = some r) (hk1 : 1 ≤ k) (hkn : k < rs.length)
    (hru : r ≠ underscore)
    (hc : (c1 up rs k || c2 dg rs k || c3 dg rs k) = false)
    (h4 : k = 1 ∨ c4 up dg rs (k-1) = false ∨ Bk up dg rs k (k-1) = true) :
    Inv up dg rs (k+1) (keepSt up dg s r) := by
  have hne := h.nonempty
  obtain ⟨b0, bt, hb⟩ : ∃ b0 bt, s.buf = b0 :: bt := by
    cases hs : s.buf with
    | nil => exact absurd hs hne
    | cons a t => exact ⟨a, t, rfl⟩
  refine ⟨?_, ?_, ?_, ?_, ?_, ?_, ?_, ?_, ?_⟩
  · simp only [keepSt]
    rw [take_succ' hr, ← h.cover, List.append_assoc]
  · simp only [keepSt]
    rw [h.cuts, cuts_succ, Bk_last, hc, cuts_same up dg rs k h4]
    simp
  · simp [keepSt, uAt_of hr]
  · simp [keepSt, dAt_of hr]
  · have hk0 : k ≠ 0 := by omega
    simp [keepSt, sh, hk0]
  · simp only [keepSt, Nat.add_sub_cancel, Bk_last, hc, hb]
    simp; omega
  · simp [keepSt]
  · have hh := h.head_
    simp only [keepSt, hb, List.cons_append, List.head?_cons, List.length_cons, List.length_append, List.length_nil] at hh ⊢
    rw [hh]
    congr 1
    simp
  · intro x hx
    simp only [keepSt, hb, List.cons_append, List.drop_succ_cons, List.drop_zero, List.mem_append, List.mem_singleton] at hx
    rcases hx with hx | hx
    · exact h.tail_ x (by simp [hb, hx])
    · rw [hx]; exact hru

end
end Pgs.C15

namespace Pgs.C15
section
variable {up dg : Nat → Bool} {rs : Runes}

theorem inv_retro {k r pr : Nat} {s : St} (h : Inv up dg rs k s) (hr : rs[k]? = some r) (hkn : k < rs.length)
    (hru : r ≠ underscore) (hlong : s.buf.length > 1) (hpr : s.buf.getLast? = some pr)
    (hc : (c1 up rs k || c2 dg rs k || c3 dg rs k) = false)
    (h4 : c4 up dg rs (k-1) = true) :
    Inv up dg rs (k+1) (retroSt up dg s pr r) := by
  have hlen := len_of_cover (Nat.le_of_lt hkn) h.cover
  have hl := h.long
  simp only [hlong, decide_true] at hl
  have hk2 : 2 ≤ k := by
    by_cases hk : 2 ≤ k
    · exact hk
    · simp [hk] at hl
  have hBk : Bk up dg rs k (k-1) = false := by
    have : decide (k ≥ 2) = true := by simp [hk2]
    rw [this] at hl; simpa using hl.symm
  have hsplit : s.buf.dropLast ++ [pr] = s.buf := by
    have hne : s.buf ≠ [] := h.nonempty
    have := List.dropLast_concat_getLast hne
    have hg : s.buf.getLast hne = pr := by
      have := List.getLast?_eq_some_getLast hne
      rw [hpr] at this; exact (Option.some.inj this).symm
    rw [hg] at this; exact this
  have hdl : s.buf.dropLast.length = s.buf.length - 1 := List.length_dropLast
  refine ⟨?_, ?_, ?_, ?_, ?_, ?_, ?_, ?_, ?_⟩
  · simp only [retroSt, List.flatten_append, List.flatten_cons, List.flatten_nil, List.append_nil]
    rw [take_succ' hr, ← h.cover, ← hsplit]
    simp
  · simp only [retroSt]
    rw [cumFrom_append, h.cuts, cuts_succ, Bk_last, hc, cuts_retro up dg rs k hk2 h4, cuts_old up dg rs k hk2 hBk]
    simp only [List.flatten_append, List.flatten_cons, List.flatten_nil, List.append_nil, List.length_append, hdl,
      Nat.zero_add, Bool.and_false, Bool.false_eq_true, if_false, List.append_nil]
    congr 2
    omega
  · simp [retroSt, uAt_of hr]
  · simp [retroSt, dAt_of hr]
  · have hk0 : k ≠ 0 := by omega
    simp [retroSt, sh, hk0]
  · simp only [retroSt, Nat.add_sub_cancel, Bk_last, hc]
    simp; omega
  · simp [retroSt]
  · -- the moved capital is not the leading underscore: it sits after the first rune of the buffer
    have hprne : pr ≠ underscore := by
      apply h.tail_
      rw [← hsplit]
      cases hd : s.buf.dropLast with
      | nil => rw [hd] at hdl; simp at hdl; omega
      | cons a t => simp
    have hpr' : (pr == underscore) = false := by simp [hprne]
    have hk1 : ¬ (k = 1) := by omega
    simp [retroSt, hpr', hk1]
  · intro x hx
    simp only [retroSt, List.drop_succ_cons, List.drop_zero, List.mem_singleton] at hx
    rw [hx]; exact hru

/-- one scanner step preserves the invariant -/
theorem inv_step {k r : Nat} {s : St} (h : Inv up dg rs k s) (hr : rs[k]? = some r) (hk1 : 1 ≤ k) (hkn : k < rs.length)
    (hru : r ≠ underscore) (hcls : ∀ i, (uAt up rs i && dAt dg rs i) = false) :
    Inv up dg rs (k+1) (step up dg s r) := by
  have hne := h.nonempty
  have hlen := len_of_cover (Nat.le_of_lt hkn) h.cover
  have hbe : s.buf.isEmpty = false := by
    cases hb : s.buf with
    | nil => exact absurd hb hne
    | cons a t => rfl
  have hb1 : decide (s.buf.length ≥ 1) = true := by
    cases hb : s.buf with
    | nil => exact absurd hb hne
    | cons a t => simp
  -- the flags of the step in terms of the clauses
  have hu : uAt up rs k = up r := uAt_of hr
  have hd : dAt dg rs k = dg r := dAt_of hr
  have hk' : k - 1 + 1 = k := by omega
  have e1 : c1 up rs k = (up r && !s.capt && !s.lodash) := by simp [c1, hu, h.capt, h.lodash]
  have e2 : c2 dg rs k = (dg r && !s.num && !s.lodash) := by simp [c2, hd, h.num, h.lodash]
  have e3 : c3 dg rs k = (!dg r && s.num) := by simp [c3, hd, h.num]
  have e4 : c4 up dg rs (k-1) = (s.capt && !up r && !dg r && !sh rs (k-1)) := by
    simp only [c4, hk', hu, hd, ← h.capt]
    have : decide (k < rs.length) = true := by simp [hkn]
    simp [this]
  have hcu := hcls k
  have hcp := hcls (k-1)
  rw [hu, hd] at hcu
  rw [← h.capt, ← h.num] at hcp
  have hlod : (if r = underscore ∧ s.buf = [] ∧ s.parts = [] then true else s.lodash) = s.lodash := by
    simp [hne]
  have hfin : ∀ (l : Bool), (l && decide (r = underscore)) = false := by intro l; simp [hru]
  -- the state after the step, by the scanner's own case distinction
  unfold step
  simp only [hlod, hbe, Bool.not_false, Bool.and_true, hfin]
  by_cases hb1' : (up r && !s.capt && !s.lodash) = true
  · -- new upper-case letter
    simp only [hb1', if_true]
    have hc : (c1 up rs k || c2 dg rs k || c3 dg rs k) = true := by rw [e1, hb1']; simp
    have h4 : c4 up dg rs (k-1) = false := by
      rw [e4]; simp only [Bool.and_eq_true, Bool.not_eq_true'] at hb1'; simp [hb1'.1.1]
    exact inv_push h hr hk1 hkn hru hc (.inr (.inl h4))
  simp only [hb1', if_false]
  by_cases hb2 : (dg r && !s.num && !s.lodash) = true
  · simp only [hb2, if_true]
    have hc : (c1 up rs k || c2 dg rs k || c3 dg rs k) = true := by rw [e2, hb2]; simp
    have h4 : c4 up dg rs (k-1) = false := by
      rw [e4]; simp only [Bool.and_eq_true, Bool.not_eq_true'] at hb2; simp [hb2.1.1]
    exact inv_push h hr hk1 hkn hru hc (.inr (.inl h4))
  simp only [hb2, if_false]
  by_cases hb3 : (!up r && s.capt && decide (s.buf.length > 1)) = true
  · simp only [hb3, if_true]
    simp only [Bool.and_eq_true, Bool.not_eq_true', decide_eq_true_eq] at hb3
    obtain ⟨⟨hur, hcapt⟩, hlong⟩ := hb3
    -- the buffer is long: at least two runes were read and there is no boundary at k-1 yet
    have hl := h.long
    simp only [hlong, decide_true] at hl
    have hk2 : 2 ≤ k := by
      by_cases hk : 2 ≤ k
      · exact hk
      · simp [hk] at hl
    have hlodf : s.lodash = false := by
      rw [h.lodash]; have : ¬ (k = 1) := by omega
      simp [sh, this]
    have hnum : s.num = false := by
      rw [hcapt] at hcp; simpa using hcp
    have hdr : dg r = false := by
      -- otherwise the "new digit" branch would have fired
      cases hdg : dg r with
      | false => rfl
      | true => simp [hdg, hnum, hlodf] at hb2
    have hc : (c1 up rs k || c2 dg rs k || c3 dg rs k) = false := by
      rw [e1, e2, e3]; simp [hur, hdr, hnum]
    -- the special case "_X": exactly the shielded position
    have hspec : (s.buf.length ≠ 2 ∨ s.buf.head? ≠ some underscore) ↔ sh rs (k-1) = false := by
      have hh := h.head_
      constructor
      · intro hor
        cases hsh : sh rs (k-1) with
        | false => rfl
        | true =>
          exfalso
          simp only [sh, Bool.and_eq_true, beq_iff_eq] at hsh
          have hk : k = 2 := by omega
          have hl2 : s.buf.length = 2 := by omega
          rcases hor with hor | hor
          · exact hor hl2
          · apply hor
            have : (s.buf.head? == some underscore) = true := by
              rw [hh, hsh.1]; simp [hl2, hk]
            simpa using this
      · intro hsh
        by_cases hl2 : s.buf.length = 2
        · right
          intro hhead
          have : (s.buf.head? == some underscore) = true := by simp [hhead]
          rw [hh] at this
          simp only [Bool.and_eq_true, decide_eq_true_eq] at this
          have hk : k = 2 := by omega
          simp [sh, this.1, hk] at hsh
        · exact .inl hl2
    by_cases hsp : s.buf.length ≠ 2 ∨ s.buf.head? ≠ some underscore
    · simp only [hsp, if_true]
      have hsh := hspec.mp hsp
      have h4 : c4 up dg rs (k-1) = true := by rw [e4]; simp [hcapt, hur, hdr, hsh]
      cases hpr : s.buf.getLast? with
      | none =>
        exfalso
        cases hb : s.buf with
        | nil => exact hne hb
        | cons a t => rw [hb] at hpr; simp [List.getLast?_cons] at hpr
      | some pr =>
        simp only
        exact inv_retro h hr hkn hru hlong hpr hc h4
    · simp only [hsp, if_false]
      have hsh : sh rs (k-1) = true := by
        cases hs : sh rs (k-1) with
        | true => rfl
        | false => exact absurd (hspec.mpr hs) hsp
      have h4 : c4 up dg rs (k-1) = false := by rw [e4]; simp [hsh]
      exact inv_keep h hr hk1 hkn hru hc (.inr (.inl h4))
  simp only [hb3, if_false]
  by_cases hb4 : (!dg r && s.num && decide (s.buf.length ≥ 1)) = true
  · simp only [hb4, if_true]
    simp only [hb1, Bool.and_true] at hb4
    have hc : (c1 up rs k || c2 dg rs k || c3 dg rs k) = true := by rw [e3, hb4]; simp
    have h4 : c4 up dg rs (k-1) = false := by
      simp only [Bool.and_eq_true, Bool.not_eq_true'] at hb4
      rw [e4]
      have : s.capt = false := by rw [hb4.2] at hcp; simpa using hcp
      simp [this]
    exact inv_push h hr hk1 hkn hru hc (.inr (.inl h4))
  · simp only [hb4, if_false]
    simp only [hb1, Bool.and_true] at hb4
    have hc : (c1 up rs k || c2 dg rs k || c3 dg rs k) = false := by
      rw [e1, e2, e3]
      simp only [Bool.not_eq_true] at hb1' hb2 hb4
      simp [hb1', hb2, hb4]
    -- no pending acronym boundary: either the clause is false, or the buffer is short
    have h4 : k = 1 ∨ c4 up dg rs (k-1) = false ∨ Bk up dg rs k (k-1) = true := by
      by_cases hlong : s.buf.length > 1
      · right; left
        rw [e4]
        have : (!up r && s.capt) = false := by
          simp only [hlong, decide_true, Bool.and_true, Bool.not_eq_true] at hb3; exact hb3
        cases hur : up r <;> cases hcp' : s.capt <;> simp_all
      · have hl := h.long
        simp only [hlong, decide_false] at hl
        by_cases hk : k = 1
        · exact .inl hk
        · right; right
          have : decide (k ≥ 2) = true := by simp; omega
          rw [this] at hl
          simpa using hl.symm
    exact inv_keep h hr hk1 hkn hru hc h4

end
end Pgs.C15

/-! ### from the first rune to the end of the name -/
namespace Pgs.C15
section
variable {up dg : Nat → Bool}

theorem inv_first (r0 : Nat) (rest : Runes) : Inv up dg (r0 :: rest) 1 (step up dg St.init r0) := by
  have hstep : step up dg St.init r0 =
      { parts := [], buf := [r0], capt := up r0, lodash := decide (r0 = underscore), num := dg r0 } := by
    simp [step, St.init]
  rw [hstep]
  refine ⟨by simp, ?_, by simp [uAt], by simp [dAt], ?_, ?_, by simp, ?_, by simp⟩
  · simp [cumFrom, cutsUpTo, List.range_succ]
  · by_cases h : r0 = underscore <;> simp [sh, lead, h]
  · simp
  · simp [lead]

theorem inv_fold (rs : Runes) (hcls : ∀ i, (uAt up rs i && dAt dg rs i) = false) (hund : ∀ x ∈ rs.drop 1, x ≠ underscore) :
    ∀ (suf pre : Runes) (s : St), rs = pre ++ suf → pre ≠ [] → Inv up dg rs pre.length s →
      Inv up dg rs rs.length (suf.foldl (step up dg) s) := by
  intro suf
  induction suf with
  | nil =>
    intro pre s hrs _ h
    simp only [List.append_nil] at hrs
    subst hrs
    exact h
  | cons r suf ih =>
    intro pre s hrs hpre h
    have hr : rs[pre.length]? = some r := by rw [hrs]; simp
    have hkn : pre.length < rs.length := by rw [hrs]; simp
    have hk1 : 1 ≤ pre.length := by
      cases pre with
      | nil => exact absurd rfl hpre
      | cons a t => simp
    have hru : r ≠ underscore := by
      apply hund
      rw [hrs]
      cases pre with
      | nil => exact absurd rfl hpre
      | cons a t => simp
    have := inv_step h hr hk1 hkn hru hcls
    have h' := ih (pre ++ [r]) (step up dg s r) (by rw [hrs]; simp) (by simp) (by simpa using this)
    simpa using h'

theorem classOK_at (rs : Runes) (h : classOK up dg rs = true) : ∀ i, (uAt up rs i && dAt dg rs i) = false := by
  intro i
  unfold uAt dAt
  cases hi : rs[i]? with
  | none => rfl
  | some r =>
    have hm : r ∈ rs := List.mem_of_getElem? hi
    simp only [classOK, List.all_eq_true] at h
    have := h r hm
    cases hu : up r <;> cases hd : dg r <;> simp_all

/-- **the scanner cuts at the documented boundaries** -/
theorem camel_eq_spec (rs : Runes) (hne : rs ≠ []) (hcls : classOK up dg rs = true)
    (hund : (rs.drop 1).contains underscore = false) : camel up dg rs = specCamel up dg rs := by
  obtain ⟨r0, rest, rfl⟩ : ∃ r0 rest, rs = r0 :: rest := by
    cases rs with
    | nil => exact absurd rfl hne
    | cons a t => exact ⟨a, t, rfl⟩
  have hund' : ∀ x ∈ (r0 :: rest).drop 1, x ≠ underscore := by
    intro x hx e
    have : (List.drop 1 (r0 :: rest)).contains underscore = true := by
      rw [List.contains_eq_mem]; simp only [decide_eq_true_eq]; exact e ▸ hx
    rw [hund] at this; exact Bool.noConfusion this
  have hfin := inv_fold (r0 :: rest) (classOK_at _ hcls) hund' rest [r0] (step up dg St.init r0) rfl (by simp)
    (inv_first r0 rest)
  -- the scanner's result
  have hcam : camel up dg (r0 :: rest) =
      (rest.foldl (step up dg) (step up dg St.init r0)).parts ++ [(rest.foldl (step up dg) (step up dg St.init r0)).buf] := by
    simp [camel]
  rw [hcam]
  obtain ⟨ps, last, e, f, c⟩ := cutAux_spec (boundary up dg (r0 :: rest)) (r0 :: rest) 0 []
  unfold specCamel
  rw [e]
  have hcover := hfin.cover
  rw [List.take_length] at hcover
  have hcuts : cumFrom 0 (rest.foldl (step up dg) (step up dg St.init r0)).parts = cumFrom 0 ps := by
    rw [hfin.cuts, c 0 rfl]
    unfold cutsUpTo
    simp only [Nat.add_zero, List.map_id']
    apply filter_congr_mem
    intro i hi
    have hi' : i < (r0 :: rest).length := List.mem_range.mp hi
    congr 1
    unfold Bk
    by_cases hl : i + 1 = (r0 :: rest).length
    · rw [if_pos hl, boundary_eq]
      have hlt : ¬ (i + 1 < (r0 :: rest).length) := by omega
      have h4 : c4 up dg (r0 :: rest) i = false := by
        unfold c4
        rw [decide_eq_false hlt]
        simp
      rw [h4]; simp
    · rw [if_neg hl]
  obtain ⟨a, b⟩ := seg_unique _ ps _ last 0 (by rw [hcover, f]; simp) hcuts
  rw [a, b]

end
end Pgs.C15
