import PgsVerif.Proofs.Hydrate
import PgsVerif.Model.AstSem
/-!
# The built graph equals the declarative one (C03, C04)

Whenever hydration succeeds with an index whose entries are declarations of the request with distinct
keys, everything it resolved through the index *at some moment* (dependencies, field / element / key /
value types, method inputs and outputs, extendees) is what the declarative lookup over *all*
declarations of the request gives: `declaredAs w name kind`, THE declaration bearing that name.
No validity hypothesis is needed for this direction: the lemmas read the successful run.
-/
namespace Pgs.AST

theorem key_inj (l : List Decl) (h : (l.map (·.key)).Nodup) : ∀ a ∈ l, ∀ b ∈ l, a.key = b.key → a = b := by
  induction l with
  | nil => intro a ha; simp at ha
  | cons x l ih =>
    simp only [List.map_cons, List.nodup_cons] at h
    intro a ha b hb e
    rcases List.mem_cons.mp ha with rfl | ha' <;> rcases List.mem_cons.mp hb with rfl | hb'
    · rfl
    · exact absurd (e ▸ List.mem_map_of_mem hb') h.1
    · exact absurd (e ▸ List.mem_map_of_mem ha') h.1
    · exact ih h.2 a ha' b hb' e

theorem declaredAs_of_mem (w : World) (hnd : ((declared w).map (·.key)).Nodup) (d : Decl) (hd : d ∈ declared w) :
    declaredAs w d.key d.kind = d.ref := by
  unfold declaredAs
  cases hf : (declared w).find? (fun x => x.key == d.key && x.kind == d.kind) with
  | none =>
    have := List.find?_eq_none.mp hf d hd
    simp at this
  | some x =>
    have hx := List.find?_some hf
    have hm := List.mem_of_find?_eq_some hf
    simp only [Bool.and_eq_true, beq_iff_eq] at hx
    have := key_inj _ hnd x hm d hd hx.1
    simp [this]

section
variable (w : World) (hnd : ((declared w).map (·.key)).Nodup)
include hnd

theorem mustSeen_spec (s : Seen) (hs : ∀ d ∈ s, d ∈ declared w) (k : String) (kind : Kind) (r : Ref)
    (h : mustSeen s k kind = .ok r) : r = declaredAs w k kind := by
  unfold mustSeen at h
  cases hl : lookup s k with
  | none => simp [hl] at h
  | some d =>
    simp only [hl] at h
    by_cases hk : d.kind = kind
    · simp only [hk, if_true] at h
      cases h
      have hm : d ∈ s := List.mem_of_find?_eq_some hl
      have hkey : d.key = k := by have := List.find?_some hl; simpa using this
      rw [← hkey, ← hk]; exact (declaredAs_of_mem w hnd d (hs d hm)).symm
    · simp [hk] at h

theorem entryElem_spec (s : Seen) (hs : ∀ d ∈ s, d ∈ declared w) (owner : Ref) (f : FieldD) (e : Elem)
    (h : entryElem s owner f = .ok e) : e = specElem w f := by
  unfold entryElem at h
  unfold specElem
  by_cases h10 : f.type = 10
  · simp [h10] at h
  simp only [h10, if_false] at h
  by_cases h3 : f.label = 3
  · simp [h3] at h
  simp only [h3, if_false] at h
  by_cases h14 : f.type = 14
  · simp only [h14, if_true] at h ⊢
    cases hm : mustSeen s f.typeName .enum with
    | error x => simp [hm, Except.map] at h
    | ok r =>
      simp only [hm, Except.map] at h
      cases h
      rw [mustSeen_spec w hnd s hs _ _ _ hm]
  simp only [h14, if_false] at h ⊢
  by_cases h11 : f.type = 11
  · simp only [h11, if_true] at h ⊢
    cases hm : mustSeen s f.typeName .msg with
    | error x => simp [hm, Except.map] at h
    | ok r =>
      simp only [hm, Except.map] at h
      cases h
      rw [mustSeen_spec w hnd s hs _ _ _ hm]
  simp only [h11, if_false] at h ⊢
  cases h; rfl

theorem fieldType_spec (s : Seen) (hs : ∀ d ∈ s, d ∈ declared w) (owner : Ref) (f : FieldD) (t : FType)
    (h : fieldType w s owner f = .ok t) : t = specType w f := by
  unfold fieldType at h
  unfold specType
  by_cases h10 : f.type = 10
  · simp [h10] at h
  simp only [h10, if_false] at h
  by_cases h3 : f.label = 3
  · simp only [h3, if_true] at h ⊢
    by_cases h14 : f.type = 14
    · simp only [h14, if_true] at h ⊢
      cases hm : mustSeen s f.typeName .enum with
      | error x => simp [hm, Except.map] at h
      | ok r =>
        simp only [hm, Except.map] at h
        cases h
        rw [mustSeen_spec w hnd s hs _ _ _ hm]
    simp only [h14, if_false] at h ⊢
    by_cases h11 : f.type = 11
    · simp only [h11, if_true] at h ⊢
      cases hm : mustSeen s f.typeName .msg with
      | error x => simp [hm] at h
      | ok m =>
        simp only [hm] at h
        have hmr := mustSeen_spec w hnd s hs _ _ _ hm
        rw [← hmr]
        cases hat : w.msgAt m with
        | none => simp [hat] at h
        | some hn =>
          obtain ⟨hh, n⟩ := hn
          simp only [hat] at h
          have hme : isMapEntryFqn w f.typeName = hh.mapEntry := by
            simp only [isMapEntryFqn, ← hmr, hat]
          rw [hme]
          by_cases hmap : hh.mapEntry = true
          · simp only [hmap, if_true] at h ⊢
            cases hf : hh.fields with
            | nil => simp [hf] at h
            | cons k rest =>
              cases rest with
              | nil => simp [hf] at h
              | cons v rest =>
                simp only [hf] at h ⊢
                cases hk : entryElem s owner k with
                | error x => simp [hk] at h
                | ok ke =>
                  cases hv : entryElem s owner v with
                  | error x => simp [hk, hv] at h
                  | ok ve =>
                    simp only [hk, hv] at h
                    cases h
                    rw [entryElem_spec w hnd s hs owner k ke hk, entryElem_spec w hnd s hs owner v ve hv]
          · simp only [hmap] at h ⊢
            cases h; rfl
    simp only [h11, if_false] at h ⊢
    cases h; rfl
  simp only [h3, if_false] at h ⊢
  by_cases h14 : f.type = 14
  · simp only [h14, if_true] at h ⊢
    cases hm : mustSeen s f.typeName .enum with
    | error x => simp [hm, Except.map] at h
    | ok r =>
      simp only [hm, Except.map] at h
      cases h
      rw [mustSeen_spec w hnd s hs _ _ _ hm]
  simp only [h14, if_false] at h ⊢
  by_cases h11 : f.type = 11
  · simp only [h11, if_true] at h ⊢
    cases hm : mustSeen s f.typeName .msg with
    | error x => simp [hm, Except.map] at h
    | ok r =>
      simp only [hm, Except.map] at h
      cases h
      rw [mustSeen_spec w hnd s hs _ _ _ hm]
  simp only [h11, if_false] at h ⊢
  cases h; rfl

theorem fieldTypes_spec (s : Seen) (hs : ∀ d ∈ s, d ∈ declared w) (fi : Nat) (p : List Nat) (tag : Nat) :
    ∀ (fs : List FieldD) (i : Nat) (ts : List (Ref × FType)), fieldTypes w s fi p tag i fs = .ok ts →
      ts = (idx fs).map (fun q => ((⟨fi, p ++ [tag, i + q.1]⟩ : Ref), specType w q.2)) := by
  intro fs
  induction fs with
  | nil => intro i ts h; simp only [fieldTypes] at h; cases h; rfl
  | cons f fs ih =>
    intro i ts h
    simp only [fieldTypes] at h
    cases h1 : fieldType w s ⟨fi, p ++ [tag, i]⟩ f with
    | error e => simp [h1] at h
    | ok t =>
      cases h2 : fieldTypes w s fi p tag (i+1) fs with
      | error e => simp [h1, h2] at h
      | ok rest =>
        simp only [h1, h2] at h
        cases h
        rw [idx_cons, fieldType_spec w hnd s hs _ f t h1, ih (i+1) rest h2]
        simp only [List.map_cons, List.map_map, Nat.add_zero]
        congr 1
        apply List.map_congr_left
        intro q _
        simp only [Function.comp]
        have : i + (q.1 + 1) = i + 1 + q.1 := by omega
        rw [this]

theorem msgFieldTypes_spec (s : Seen) (hs : ∀ d ∈ s, d ∈ declared w) (fi : Nat) :
    ∀ (ms : Msgs) (p : List Nat) (tag i : Nat) (ts : List (Ref × FType)), msgFieldTypes w s fi p tag i ms = .ok ts →
      ts = (fieldsOfMsgs fi p tag i ms).map (fun x => (x.1, specType w x.2)) := by
  intro ms
  induction ms with
  | nil => intro p tag i ts h; simp only [msgFieldTypes] at h; cases h; rfl
  | cons hd nested rest ih1 ih2 =>
    intro p tag i ts h
    simp only [msgFieldTypes] at h
    cases h1 : fieldTypes w s fi (p ++ [tag, i]) 2 0 hd.fields with
    | error e => simp [h1] at h
    | ok a =>
      cases h2 : msgFieldTypes w s fi (p ++ [tag, i]) 3 0 nested with
      | error e => simp [h1, h2] at h
      | ok b =>
        cases h3 : msgFieldTypes w s fi p tag (i+1) rest with
        | error e => simp [h1, h2, h3] at h
        | ok c =>
          simp only [h1, h2, h3] at h
          cases h
          rw [fieldTypes_spec w hnd s hs fi _ 2 hd.fields 0 a h1, ih1 _ _ _ _ h2, ih2 _ _ _ _ h3]
          simp only [fieldsOfMsgs, List.map_append, List.map_map, Nat.zero_add]
          congr 1

theorem resolveFiles_spec (s : Seen) (hs : ∀ d ∈ s, d ∈ declared w) :
    ∀ (ds : List String) (rs : List Ref), resolveFiles s ds = .ok rs → rs = ds.map (fun d => declaredAs w d .file) := by
  intro ds
  induction ds with
  | nil => intro rs h; simp only [resolveFiles] at h; cases h; rfl
  | cons d ds ih =>
    intro rs h
    simp only [resolveFiles] at h
    cases h1 : mustSeen s d .file with
    | error e => simp [h1] at h
    | ok r =>
      cases h2 : resolveFiles s ds with
      | error e => simp [h1, h2] at h
      | ok rest =>
        simp only [h1, h2] at h
        cases h
        rw [mustSeen_spec w hnd s hs _ _ _ h1, ih rest h2]
        rfl

theorem hydrateExts_spec (s : Seen) (hs : ∀ d ∈ s, d ∈ declared w) :
    ∀ (xs : List (Ref × FieldD)) (ts : List (Ref × FType)) (ms : List (Ref × Ref)), hydrateExts w s xs = .ok (ts, ms) →
      ts = xs.map (fun x => (x.1, specType w x.2)) ∧ ms = xs.map (fun x => (x.1, declaredAs w x.2.extendee .msg)) := by
  intro xs
  induction xs with
  | nil => intro ts ms h; simp only [hydrateExts] at h; cases h; exact ⟨rfl, rfl⟩
  | cons x xs ih =>
    intro ts ms h
    obtain ⟨r, x⟩ := x
    simp only [hydrateExts] at h
    cases h1 : fieldType w s r x with
    | error e => simp [h1] at h
    | ok t =>
      cases h2 : mustSeen s x.extendee .msg with
      | error e => simp [h1, h2] at h
      | ok m =>
        cases h3 : hydrateExts w s xs with
        | error e => simp [h1, h2, h3] at h
        | ok tm =>
          obtain ⟨ts', ms'⟩ := tm
          simp only [h1, h2, h3] at h
          cases h
          obtain ⟨e1, e2⟩ := ih ts' ms' h3
          rw [fieldType_spec w hnd s hs _ x t h1, mustSeen_spec w hnd s hs _ _ _ h2, e1, e2]
          exact ⟨rfl, rfl⟩

end

/-! ### services: the index only grows, and what was resolved is declarative -/
theorem hydrateMethods_mono (fi si : Nat) (fqn : String) :
    ∀ (ms : List MethodD) (s : Seen) (j : Nat) (s2 : Seen) (l : List (Ref × Ref × Ref)),
      hydrateMethods fi si fqn s j ms = .ok (s2, l) → ∀ d ∈ s, d ∈ s2 := by
  intro ms
  induction ms with
  | nil => intro s j s2 l h; simp only [hydrateMethods] at h; cases h; exact fun d hd => hd
  | cons m ms ih =>
    intro s j s2 l h
    simp only [hydrateMethods] at h
    split at h
    · rename_i a b _ _
      cases h3 : hydrateMethods fi si fqn (⟨fqn ++ "." ++ m.name, ⟨fi, [6, si, 2, j]⟩, .method⟩ :: s) (j+1) ms with
      | error e => simp [h3] at h
      | ok r =>
        obtain ⟨s2', rest⟩ := r
        simp only [h3] at h
        cases h
        exact fun d hd => ih _ _ _ _ h3 d (List.mem_cons_of_mem _ hd)
    · simp at h
    · simp at h

theorem hydrateMethods_spec (w : World) (hnd : ((declared w).map (·.key)).Nodup) (fi si : Nat) (fqn : String) :
    ∀ (ms : List MethodD) (s : Seen) (j : Nat) (s2 : Seen) (l : List (Ref × Ref × Ref)),
      hydrateMethods fi si fqn s j ms = .ok (s2, l) → (∀ d ∈ s2, d ∈ declared w) →
      l = (idx ms).map (fun q => ((⟨fi, [6, si, 2, j + q.1]⟩ : Ref), declaredAs w q.2.input .msg, declaredAs w q.2.output .msg)) := by
  intro ms
  induction ms with
  | nil => intro s j s2 l h _; simp only [hydrateMethods] at h; cases h; rfl
  | cons m ms ih =>
    intro s j s2 l h hs2
    simp only [hydrateMethods] at h
    split at h
    · rename_i a b ha hb
      cases h3 : hydrateMethods fi si fqn (⟨fqn ++ "." ++ m.name, ⟨fi, [6, si, 2, j]⟩, .method⟩ :: s) (j+1) ms with
      | error e => simp [h3] at h
      | ok r =>
        obtain ⟨s2', rest⟩ := r
        simp only [h3] at h
        cases h
        have hs1 : ∀ d ∈ (⟨fqn ++ "." ++ m.name, ⟨fi, [6, si, 2, j]⟩, .method⟩ : Decl) :: s, d ∈ declared w :=
          fun d hd => hs2 d (hydrateMethods_mono fi si fqn ms _ _ _ _ h3 d hd)
        rw [idx_cons, mustSeen_spec w hnd _ hs1 _ _ _ ha, mustSeen_spec w hnd _ hs1 _ _ _ hb, ih _ _ _ _ h3 hs2]
        simp only [List.map_cons, List.map_map, Nat.add_zero]
        congr 1
        apply List.map_congr_left
        intro q _
        simp only [Function.comp]
        have : j + (q.1 + 1) = j + 1 + q.1 := by omega
        rw [this]
    · simp at h
    · simp at h

theorem hydrateServices_mono (fi : Nat) (scope : String) :
    ∀ (svcs : List ServiceD) (s : Seen) (i : Nat) (s3 : Seen) (l : List (Ref × Ref × Ref)),
      hydrateServices fi scope s i svcs = .ok (s3, l) → ∀ d ∈ s, d ∈ s3 := by
  intro svcs
  induction svcs with
  | nil => intro s i s3 l h; simp only [hydrateServices] at h; cases h; exact fun d hd => hd
  | cons sv svcs ih =>
    intro s i s3 l h
    simp only [hydrateServices] at h
    cases h1 : hydrateMethods fi i (scope ++ "." ++ sv.name) (⟨scope ++ "." ++ sv.name, ⟨fi, [6, i]⟩, .service⟩ :: s) 0 sv.methods with
    | error e => simp [h1] at h
    | ok r1 =>
      obtain ⟨s2, m1⟩ := r1
      simp only [h1] at h
      cases h2 : hydrateServices fi scope s2 (i+1) svcs with
      | error e => simp [h2] at h
      | ok r2 =>
        obtain ⟨s3', m2⟩ := r2
        simp only [h2] at h
        cases h
        exact fun d hd => ih _ _ _ _ h2 d (hydrateMethods_mono _ _ _ _ _ _ _ _ h1 d (List.mem_cons_of_mem _ hd))

/-- methods of the services from index `i`, declaratively -/
def specSvcMio (w : World) (fi i : Nat) (svcs : List ServiceD) : List (Ref × Ref × Ref) :=
  ((idx svcs).map fun (q : Nat × ServiceD) => (idx q.2.methods).map fun (m : Nat × MethodD) =>
    ((⟨fi, [6, i + q.1, 2, m.1]⟩ : Ref), declaredAs w m.2.input .msg, declaredAs w m.2.output .msg)).flatten

theorem hydrateServices_spec (w : World) (hnd : ((declared w).map (·.key)).Nodup) (fi : Nat) (scope : String) :
    ∀ (svcs : List ServiceD) (s : Seen) (i : Nat) (s3 : Seen) (l : List (Ref × Ref × Ref)),
      hydrateServices fi scope s i svcs = .ok (s3, l) → (∀ d ∈ s3, d ∈ declared w) → l = specSvcMio w fi i svcs := by
  intro svcs
  induction svcs with
  | nil => intro s i s3 l h _; simp only [hydrateServices] at h; cases h; rfl
  | cons sv svcs ih =>
    intro s i s3 l h hs3
    simp only [hydrateServices] at h
    cases h1 : hydrateMethods fi i (scope ++ "." ++ sv.name) (⟨scope ++ "." ++ sv.name, ⟨fi, [6, i]⟩, .service⟩ :: s) 0 sv.methods with
    | error e => simp [h1] at h
    | ok r1 =>
      obtain ⟨s2, m1⟩ := r1
      simp only [h1] at h
      cases h2 : hydrateServices fi scope s2 (i+1) svcs with
      | error e => simp [h2] at h
      | ok r2 =>
        obtain ⟨s3', m2⟩ := r2
        simp only [h2] at h
        cases h
        have hs2 : ∀ d ∈ s2, d ∈ declared w := fun d hd => hs3 d (hydrateServices_mono _ _ _ _ _ _ _ h2 d hd)
        rw [hydrateMethods_spec w hnd _ _ _ _ _ _ _ _ h1 hs2, ih _ _ _ _ h2 hs3]
        unfold specSvcMio
        rw [idx_cons]
        simp only [List.map_cons, List.flatten_cons, List.map_map, Nat.add_zero, Nat.zero_add]
        congr 2
        apply List.map_congr_left
        intro q _
        simp only [Function.comp]
        have : i + (q.1 + 1) = i + 1 + q.1 := by omega
        rw [this]

end Pgs.AST

/-! ### files and the whole request -/
namespace Pgs.AST

/-- the declarative graph of the files `fs` numbered from `n` -/
def specDeps (w : World) (n : Nat) (fs : List FileD) : List (Nat × List Ref) :=
  (idx fs).map fun (q : Nat × FileD) => (n + q.1, q.2.deps.map fun d => declaredAs w d .file)
def specFTypes (w : World) (n : Nat) (fs : List FileD) : List (Ref × FType) :=
  ((idx fs).map fun (q : Nat × FileD) => (fieldsOfMsgs (n + q.1) [] 4 0 q.2.msgs).map fun x => (x.1, specType w x.2)).flatten
def specFilesMio (w : World) (n : Nat) (fs : List FileD) : List (Ref × Ref × Ref) :=
  ((idx fs).map fun (q : Nat × FileD) => specSvcMio w (n + q.1) 0 q.2.services).flatten

theorem hydrateFile_spec (w : World) (hnd : ((declared w).map (·.key)).Nodup) (g g' : Graph) (fi : Nat) (f : FileD)
    (h : hydrateFile w g fi f = .ok g') (hs : ∀ d ∈ g'.seen, d ∈ declared w) :
    (∀ d ∈ g.seen, d ∈ g'.seen) ∧
    g'.fileDeps = g.fileDeps ++ [(fi, f.deps.map fun d => declaredAs w d .file)] ∧
    g'.ftypes = g.ftypes ++ (fieldsOfMsgs fi [] 4 0 f.msgs).map (fun x => (x.1, specType w x.2)) ∧
    g'.mio = g.mio ++ specSvcMio w fi 0 f.services ∧
    g'.extendees = g.extendees := by
  unfold hydrateFile at h
  simp only at h
  cases h1 : resolveFiles (⟨f.name, ⟨fi, []⟩, .file⟩ :: g.seen) f.deps with
  | error e => simp [h1] at h
  | ok deps =>
    simp only [h1] at h
    cases h2 : hydrateServices fi (fileScope f) ((declFileHead fi f).reverse ++ g.seen) 0 f.services with
    | error e => simp [h2] at h
    | ok r =>
      obtain ⟨s3, mio⟩ := r
      simp only [h2] at h
      cases h3 : msgFieldTypes w s3 fi [] 4 0 f.msgs with
      | error e => simp [h3] at h
      | ok fts =>
        simp only [h3] at h
        cases h
        simp only at hs ⊢
        have hmono := hydrateServices_mono _ _ _ _ _ _ _ h2
        have hs2 : ∀ d ∈ (declFileHead fi f).reverse ++ g.seen, d ∈ declared w := fun d hd => hs d (hmono d hd)
        have hs1 : ∀ d ∈ (⟨f.name, ⟨fi, []⟩, .file⟩ : Decl) :: g.seen, d ∈ declared w := by
          intro d hd
          apply hs2
          rcases List.mem_cons.mp hd with rfl | hd
          · apply List.mem_append_left
            simp [declFileHead]
          · exact List.mem_append_right _ hd
        refine ⟨fun d hd => hmono d (List.mem_append_right _ hd), ?_, ?_, ?_, by first | rfl | trivial⟩
        · rw [resolveFiles_spec w hnd _ hs1 _ _ h1]
        · rw [msgFieldTypes_spec w hnd _ hs fi _ _ _ _ _ h3]
        · rw [hydrateServices_spec w hnd _ _ _ _ _ _ _ h2 hs]

theorem hydrateFiles_spec (w : World) (hnd : ((declared w).map (·.key)).Nodup) :
    ∀ (fs : List FileD) (g g' : Graph) (n : Nat), hydrateFiles w g n fs = .ok g' → (∀ d ∈ g'.seen, d ∈ declared w) →
      (∀ d ∈ g.seen, d ∈ g'.seen) ∧
      g'.fileDeps = g.fileDeps ++ specDeps w n fs ∧
      g'.ftypes = g.ftypes ++ specFTypes w n fs ∧
      g'.mio = g.mio ++ specFilesMio w n fs ∧
      g'.extendees = g.extendees := by
  intro fs
  induction fs with
  | nil =>
    intro g g' n h _
    simp only [hydrateFiles] at h
    cases h
    simp [specDeps, specFTypes, specFilesMio, idx]
  | cons f fs ih =>
    intro g g' n h hs
    simp only [hydrateFiles] at h
    cases h1 : hydrateFile w g n f with
    | error e => simp [h1] at h
    | ok g1 =>
      simp only [h1] at h
      obtain ⟨m2, d2, t2, o2, e2⟩ := ih g1 g' (n+1) h hs
      obtain ⟨m1, d1, t1, o1, e1⟩ := hydrateFile_spec w hnd g g1 n f h1 (fun d hd => hs d (m2 d hd))
      have hidx : ∀ (k : Nat), n + (k + 1) = n + 1 + k := fun k => by omega
      refine ⟨fun d hd => m2 d (m1 d hd), ?_, ?_, ?_, by rw [e2, e1]⟩
      · rw [d2, d1]; unfold specDeps; rw [idx_cons]
        simp only [List.map_cons, List.map_map, Nat.add_zero, List.append_assoc, List.singleton_append]
        congr 2; apply List.map_congr_left; intro q _; simp only [Function.comp]; (have : n + 1 + q.1 = n + (q.1 + 1) := by omega); rw [this]
      · rw [t2, t1]; unfold specFTypes; rw [idx_cons]
        simp only [List.map_cons, List.map_map, Nat.add_zero, List.append_assoc, List.flatten_cons]
        congr 3; apply List.map_congr_left; intro q _; simp only [Function.comp]; (have : n + 1 + q.1 = n + (q.1 + 1) := by omega); rw [this]
      · rw [o2, o1]; unfold specFilesMio; rw [idx_cons]
        simp only [List.map_cons, List.map_map, Nat.add_zero, List.append_assoc, List.flatten_cons]
        congr 3; apply List.map_congr_left; intro q _; simp only [Function.comp]; (have : n + 1 + q.1 = n + (q.1 + 1) := by omega); rw [this]

/-- **The built graph is the declarative graph.**  If hydration succeeds and its index consists of
    declarations of the request (with distinct keys), then every dependency, every field / extension
    type with its element, key and value, every method input / output and every extendee is THE
    declaration of that name and kind, classified by the table of `specType`. -/
theorem hydrate_spec (w : World) (hnd : ((declared w).map (·.key)).Nodup) (g : Graph) (h : hydrate w = .ok g)
    (hs : ∀ d ∈ g.seen, d ∈ declared w) :
    g.fileDeps = specDeps w 0 w.files ∧
    g.ftypes = specFTypes w 0 w.files ++ (allExts 0 w.files).map (fun x => (x.1, specType w x.2)) ∧
    g.mio = specFilesMio w 0 w.files ∧
    g.extendees = (allExts 0 w.files).map (fun x => (x.1, declaredAs w x.2.extendee .msg)) := by
  unfold hydrate at h
  cases h1 : hydrateFiles w Graph.empty 0 w.files with
  | error e => simp [h1] at h
  | ok g1 =>
    simp only [h1] at h
    cases h2 : hydrateExts w g1.seen (allExts 0 w.files) with
    | error e => simp [h2] at h
    | ok r =>
      obtain ⟨ts, ms⟩ := r
      simp only [h2] at h
      cases h
      simp only at hs ⊢
      obtain ⟨_, d1, t1, o1, _⟩ := hydrateFiles_spec w hnd _ _ _ _ h1 hs
      obtain ⟨e1, e2⟩ := hydrateExts_spec w hnd _ hs _ _ _ h2
      simp only [Graph.empty, List.nil_append] at d1 t1 o1
      exact ⟨d1, by rw [t1, e1], o1, e2⟩

end Pgs.AST
