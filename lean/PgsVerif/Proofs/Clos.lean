import PgsVerif.Model.AstSem2
import PgsVerif.Proofs.Hydrate
/-!
# Fuelled closure = reachability (C04: transitive imports, dependents)

`transImports` and `dependentsOf` are instances of one fuelled recursion `clos next`.  When every
edge of `next` strictly decreases a measure `μ` (imports point to earlier files; dependents to
later ones), fuel `≥ μ x` is never exhausted and `clos` lists exactly the nodes reachable in one or
more steps, each once.
-/
namespace Pgs.AST

def clos (next : Nat → List Nat) : Nat → Nat → List Nat
  | 0, _ => []
  | fuel+1, x => ((next x).map fun d => d :: clos next fuel d).flatten.eraseDups

theorem transImports_eq_clos (g : Graph) : ∀ fuel fi, transImports g fuel fi = clos g.depsOf fuel fi := by
  intro fuel
  induction fuel with
  | zero => intro fi; rfl
  | succ k ih => intro fi; simp only [transImports, clos, ih]

/-- direct dependents: the files (of the first `n`) that import `fi` -/
def directDependents (g : Graph) (n : Nat) (fi : Nat) : List Nat :=
  (List.range n).filter fun j => (g.depsOf j).contains fi

theorem dependentsOf_eq_clos (g : Graph) (n : Nat) : ∀ fuel fi,
    dependentsOf g n fuel fi = clos (directDependents g n) fuel fi := by
  intro fuel
  induction fuel with
  | zero => intro fi; rfl
  | succ k ih => intro fi; simp only [dependentsOf, clos, ih, directDependents]

/-- reachable in one or more steps -/
inductive ReachN (next : Nat → List Nat) : Nat → Nat → Prop
  | step {x y : Nat} : y ∈ next x → ReachN next x y
  | trans {x y z : Nat} : y ∈ next x → ReachN next y z → ReachN next x z

theorem ReachN.tail {next : Nat → List Nat} {x y z : Nat} (h : ReachN next x y) (hz : z ∈ next y) : ReachN next x z := by
  induction h with
  | step h1 => exact .trans h1 (.step hz)
  | trans h1 _ ih => exact .trans h1 (ih hz)

theorem clos_sound (next : Nat → List Nat) : ∀ fuel x z, z ∈ clos next fuel x → ReachN next x z := by
  intro fuel
  induction fuel with
  | zero => intro x z h; simp [clos] at h
  | succ k ih =>
    intro x z h
    simp only [clos, List.mem_eraseDups, List.mem_flatten, List.mem_map] at h
    obtain ⟨l, ⟨d, hd, rfl⟩, hz⟩ := h
    rcases List.mem_cons.mp hz with rfl | hz
    · exact .step hd
    · exact .trans hd (ih d z hz)

theorem clos_complete (next : Nat → List Nat) (μ : Nat → Nat) (hμ : ∀ x, ∀ y ∈ next x, μ y < μ x) :
    ∀ x z, ReachN next x z → ∀ fuel, μ x ≤ fuel → z ∈ clos next fuel x := by
  intro x z h
  induction h with
  | @step x y h1 =>
    intro fuel hf
    have := hμ x y h1
    cases fuel with
    | zero => omega
    | succ k =>
      simp only [clos, List.mem_eraseDups, List.mem_flatten, List.mem_map]
      exact ⟨_, ⟨y, h1, rfl⟩, List.mem_cons_self ..⟩
  | @trans x y z h1 _ ih =>
    intro fuel hf
    have := hμ x y h1
    cases fuel with
    | zero => omega
    | succ k =>
      simp only [clos, List.mem_eraseDups, List.mem_flatten, List.mem_map]
      exact ⟨_, ⟨y, h1, rfl⟩, List.mem_cons_of_mem _ (ih k (by omega))⟩

theorem nodup_eraseDups : ∀ (n : Nat) (l : List Nat), l.length ≤ n → l.eraseDups.Nodup := by
  intro n
  induction n with
  | zero => intro l h; cases l with | nil => simp | cons a as => simp at h
  | succ n ih =>
    intro l h
    cases l with
    | nil => simp
    | cons a as =>
      rw [List.eraseDups_cons]
      refine List.nodup_cons.mpr ⟨?_, ih _ ?_⟩
      · simp
      · have := List.length_filter_le (fun b => !b == a) as
        simp only [List.length_cons] at h
        omega

theorem clos_nodup (next : Nat → List Nat) (fuel x : Nat) : (clos next fuel x).Nodup := by
  cases fuel with
  | zero => simp [clos]
  | succ k => simp only [clos]; exact nodup_eraseDups _ _ (Nat.le_refl _)

theorem sortNat_nodup (l : List Nat) : (sortNat l).Nodup :=
  (List.mergeSort_perm _ _).nodup_iff.mpr (nodup_eraseDups _ _ (Nat.le_refl _))

theorem mem_sortNat {a : Nat} {l : List Nat} : a ∈ sortNat l ↔ a ∈ l := by
  simp [sortNat]

/-- reversing the edges reverses reachability -/
theorem ReachN.reverse {next prev : Nat → List Nat} (h : ∀ x y, y ∈ next x → x ∈ prev y) {x z : Nat}
    (r : ReachN next x z) : ReachN prev z x := by
  induction r with
  | step h1 => exact .step (h _ _ h1)
  | trans h1 _ ih => exact ih.tail (h _ _ h1)

/-! ### lookup by index in an `idx`-keyed table -/
theorem find_idx_map {α β : Type} (F : α → β) : ∀ (l : List α) (n k : Nat),
    ((idx l).map (fun q => (n + q.1, F q.2))).find? (fun e => e.1 == n + k) = (l[k]?).map (fun x => (n + k, F x)) := by
  intro l
  induction l with
  | nil => intro n k; simp [idx]
  | cons a l ih =>
    intro n k
    rw [idx_cons]
    simp only [List.map_cons, List.map_map, List.find?_cons, Nat.add_zero]
    cases k with
    | zero => simp
    | succ k =>
      have hne : (n == n + (k + 1)) = false := by simp
      simp only [hne, List.getElem?_cons_succ]
      have e : n + (k + 1) = n + 1 + k := by omega
      rw [e, ← ih (n+1) k]
      congr 1
      apply List.map_congr_left
      intro q _
      simp only [Function.comp]
      have : n + (q.1 + 1) = n + 1 + q.1 := by omega
      rw [this]

end Pgs.AST
