import PgsVerif.Proofs.Hydrate
/-! Structural facts about the declaration list: every declaration of file `fi` carries `fi`. -/
namespace Pgs.AST

theorem declEnums_file {fi : Nat} {sc : String} {p : List Nat} {tag : Nat} {es : List EnumD} :
    ∀ d ∈ declEnums fi sc p tag es, d.ref.file = fi := by
  intro d hd
  simp only [declEnums, List.mem_flatten, List.mem_map] at hd
  obtain ⟨l, ⟨⟨i, e⟩, _, rfl⟩, hd⟩ := hd
  simp only [declEnum, List.mem_cons, List.mem_map] at hd
  rcases hd with rfl | ⟨⟨j, v⟩, _, rfl⟩ <;> rfl

theorem declFields_file {fi : Nat} {sc : String} {p : List Nat} {tag : Nat} {k : Kind} {fs : List FieldD} :
    ∀ d ∈ declFields fi sc p tag k fs, d.ref.file = fi := by
  intro d hd
  simp only [declFields, List.mem_map] at hd
  obtain ⟨⟨i, f⟩, _, rfl⟩ := hd
  rfl

theorem declOneofs_file {fi : Nat} {sc : String} {p : List Nat} {os : List String} :
    ∀ d ∈ declOneofs fi sc p os, d.ref.file = fi := by
  intro d hd
  simp only [declOneofs, List.mem_map] at hd
  obtain ⟨⟨i, f⟩, _, rfl⟩ := hd
  rfl

theorem declMsgs_file {fi : Nat} : ∀ (ms : Msgs) (sc : String) (p : List Nat) (tag i : Nat),
    ∀ d ∈ declMsgs fi sc p tag i ms, d.ref.file = fi := by
  intro ms
  induction ms with
  | nil => intro sc p tag i d hd; simp [declMsgs] at hd
  | cons h nested rest ih1 ih2 =>
    intro sc p tag i
    simp only [declMsgs, List.cons_append, List.forall_mem_cons, List.forall_mem_append]
    exact ⟨trivial, ⟨⟨⟨⟨declEnums_file, ih1 _ _ _ _⟩, declOneofs_file⟩, declFields_file⟩, declFields_file⟩, ih2 _ _ _ _⟩

theorem declService_file {fi : Nat} {sc : String} {i : Nat} {s : ServiceD} :
    ∀ d ∈ declService fi sc i s, d.ref.file = fi := by
  intro d hd
  simp only [declService, List.mem_cons, List.mem_map] at hd
  rcases hd with rfl | ⟨⟨j, m⟩, _, rfl⟩ <;> rfl

theorem declServices_file {fi : Nat} {f : FileD} : ∀ d ∈ declServices fi f, d.ref.file = fi := by
  intro d hd
  simp only [declServices, List.mem_flatten, List.mem_map] at hd
  obtain ⟨l, ⟨⟨i, s⟩, _, rfl⟩, hd⟩ := hd
  exact declService_file d hd

theorem declFile_file {fi : Nat} {f : FileD} : ∀ d ∈ declFile fi f, d.ref.file = fi := by
  simp only [declFile, declFileHead, List.cons_append, List.forall_mem_cons, List.forall_mem_append]
  exact ⟨trivial, ⟨⟨declEnums_file, declFields_file⟩, declMsgs_file _ _ _ _ _⟩, declServices_file⟩

theorem declFrom_file : ∀ (fs : List FileD) (n : Nat), ∀ d ∈ declFrom n fs, n ≤ d.ref.file ∧ d.ref.file < n + fs.length := by
  intro fs
  induction fs with
  | nil => intro n d hd; simp [declFrom] at hd
  | cons f fs ih =>
    intro n d hd
    simp only [declFrom, List.mem_append] at hd
    simp only [List.length_cons]
    rcases hd with hd | hd
    · have := declFile_file d hd; omega
    · have := ih (n+1) d hd; omega

end Pgs.AST
