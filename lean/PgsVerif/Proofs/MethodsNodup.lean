import PgsVerif.Proofs.OwnersNodup
/-!
# Methods of a request have pairwise distinct references

so the table `g.mio` (method ↦ input, output) built by hydration is a function of the reference.
-/
namespace Pgs.AST

/-- the methods of file `fi`, declaratively -/
def fileMio (w : World) (fi : Nat) (f : FileD) : List (Ref × Ref × Ref) := specSvcMio w fi 0 f.services

theorem specSvcMio_refs (w : World) (fi : Nat) : ∀ (svcs : List ServiceD) (i : Nat),
    (specSvcMio w fi i svcs).map (·.1) =
      ((idx svcs).map fun (q : Nat × ServiceD) => childRefs fi [6, i + q.1] 2 q.2.methods.length).flatten := by
  intro svcs i
  unfold specSvcMio
  rw [List.map_flatten, List.map_map]
  congr 1
  apply List.map_congr_left
  intro q _
  simp only [Function.comp, List.map_map, childRefs]
  exact idx_map_fst q.2.methods (fun k => (⟨fi, [6, i + q.1, 2, k]⟩ : Ref))

/-- method references of the services from index `i` are a sublist of the services' pre-order -/
theorem methodRefs_sublist (fi : Nat) : ∀ (svcs : List ServiceD) (i : Nat),
    (((idx svcs).map fun (q : Nat × ServiceD) => childRefs fi [6, i + q.1] 2 q.2.methods.length).flatten).Sublist
      (servicesF fi i svcs).pre := by
  intro svcs
  induction svcs with
  | nil => intro i; simp [idx, servicesF, Forest.pre]
  | cons s ss ih =>
    intro i
    rw [idx_cons]
    simp only [List.map_cons, List.flatten_cons, List.map_map, Nat.add_zero, servicesF, Forest.pre, leavesF_pre]
    have h2 := ih (i+1)
    have e : (List.map ((fun (q : Nat × ServiceD) => childRefs fi [6, i + q.1] 2 q.2.methods.length) ∘ fun p => (p.1 + 1, p.2)) (idx ss))
        = (List.map (fun (q : Nat × ServiceD) => childRefs fi [6, i + 1 + q.1] 2 q.2.methods.length) (idx ss)) := by
      apply List.map_congr_left
      intro q _
      simp only [Function.comp]
      have : i + (q.1 + 1) = i + 1 + q.1 := by omega
      rw [this]
    rw [e]
    exact List.Sublist.cons _ (List.Sublist.append (List.Sublist.refl _) h2)

theorem specSvcMio_nodup (w : World) (fi : Nat) (svcs : List ServiceD) (i : Nat) :
    ((specSvcMio w fi i svcs).map (·.1)).Nodup ∧ ∀ r ∈ (specSvcMio w fi i svcs).map (·.1), r.file = fi := by
  rw [specSvcMio_refs]
  refine ⟨(methodRefs_sublist fi svcs i).nodup (servicesF_nodup fi svcs i), ?_⟩
  intro r hr
  simp only [List.mem_flatten, List.mem_map] at hr
  obtain ⟨l, ⟨q, _, rfl⟩, hr⟩ := hr
  exact (childRefs_endsWith _ _ _ _ r hr).2

theorem specFilesMio_nodup (w : World) : ∀ (fs : List FileD) (n : Nat),
    ((specFilesMio w n fs).map (·.1)).Nodup ∧ ∀ r ∈ (specFilesMio w n fs).map (·.1), n ≤ r.file := by
  intro fs
  induction fs with
  | nil => intro n; simp [specFilesMio, idx]
  | cons f fs ih =>
    intro n
    have hcons : specFilesMio w n (f :: fs) = specSvcMio w n 0 f.services ++ specFilesMio w (n+1) fs := by
      unfold specFilesMio
      rw [idx_cons]
      simp only [List.map_cons, List.flatten_cons, List.map_map, Nat.add_zero]
      congr 2
      apply List.map_congr_left
      intro q _
      simp only [Function.comp]
      have : n + (q.1 + 1) = n + 1 + q.1 := by omega
      rw [this]
    rw [hcons, List.map_append]
    obtain ⟨n1, f1⟩ := specSvcMio_nodup w n f.services 0
    obtain ⟨n2, f2⟩ := ih (n+1)
    refine ⟨List.nodup_append.mpr ⟨n1, n2, ?_⟩, ?_⟩
    · intro x hx y hy e
      have a := f1 x hx
      have b := f2 y hy
      rw [e] at a; omega
    · intro r hr
      rcases List.mem_append.mp hr with hr | hr
      · have := f1 r hr; omega
      · have := f2 r hr; omega

/-- lookup in a table keyed by distinct references (entries as they are) -/
theorem find_self_of_nodup {β : Type} : ∀ (l : List (Ref × β)), (l.map (·.1)).Nodup → ∀ x ∈ l,
    l.find? (·.1 == x.1) = some x := by
  intro l
  induction l with
  | nil => intro _ x hx; simp at hx
  | cons a l ih =>
    intro hnd x hx
    simp only [List.map_cons, List.nodup_cons] at hnd
    simp only [List.find?_cons]
    rcases List.mem_cons.mp hx with rfl | hx
    · simp
    · have : (a.1 == x.1) = false := by
        simp only [beq_eq_false_iff_ne, ne_eq]
        intro e
        exact hnd.1 (e ▸ List.mem_map_of_mem hx)
      simp only [this]
      exact ih hnd.2 x hx

end Pgs.AST
