import PgsVerif.Model.Comment
/-! Helper lemmas for C20: `strings.Fields` over decorated runes, and what one call of the split
function does to the buffered data. -/
namespace Pgs.C20
open Pgs

def word (cur : List R) : Bytes := (cur.reverse.map (·.b)).flatten

/-- splitting right after a blank: the accumulator is empty again -/
theorem fieldsAux_after_space (a b : List R) (s : R) (hs : s.sp = true) (cur : List R) :
    fieldsAux (a ++ s :: b) cur = fieldsAux (a ++ [s]) cur ++ fieldsAux b [] := by
  induction a generalizing cur with
  | nil => by_cases hc : cur = [] <;> simp [fieldsAux, hs, hc]
  | cons r a ih =>
    simp only [List.cons_append, fieldsAux]
    by_cases hr : r.sp = true
    · by_cases hc : cur = [] <;> simp [hr, hc, ih]
    · have hr' : r.sp = false := by simpa using hr
      simp only [hr', Bool.false_eq_true, if_false]; exact ih _

/-- a trailing blank only flushes the current word -/
theorem fieldsAux_trailing_space (a : List R) (s : R) (hs : s.sp = true) (cur : List R) :
    fieldsAux (a ++ [s]) cur = fieldsAux a cur := by
  induction a generalizing cur with
  | nil => by_cases hc : cur = [] <;> simp [fieldsAux, hs, hc]
  | cons r a ih =>
    simp only [List.cons_append, fieldsAux]
    by_cases hr : r.sp = true
    · by_cases hc : cur = [] <;> simp [hr, hc, ih]
    · have hr' : r.sp = false := by simpa using hr
      simp only [hr', Bool.false_eq_true, if_false]; exact ih _

theorem fields_leading_space (s : R) (hs : s.sp = true) (b : List R) : fields (s :: b) = fields b := by
  simp [fields, fieldsAux, hs]

theorem fields_leading_spaces (l b : List R) (hl : ∀ r ∈ l, r.sp = true) : fields (l ++ b) = fields b := by
  induction l with
  | nil => rfl
  | cons s l ih =>
    rw [List.cons_append, fields_leading_space s (hl s (List.mem_cons_self ..))]
    exact ih (fun r hr => hl r (List.mem_cons_of_mem _ hr))

/-- splitting before a blank -/
theorem fields_split_before_space (a b : List R) (s : R) (hs : s.sp = true) :
    fields (a ++ s :: b) = fields a ++ fields (s :: b) := by
  unfold fields
  rw [fieldsAux_after_space a b s hs, fieldsAux_trailing_space a s hs]
  simp [fieldsAux, hs]

theorem fields_trailing_spaces (a t : List R) (ht : ∀ r ∈ t, r.sp = true) : fields (a ++ t) = fields a := by
  induction t generalizing a with
  | nil => simp
  | cons s t ih =>
    have hs : s.sp = true := ht s (List.mem_cons_self ..)
    have : a ++ s :: t = (a ++ [s]) ++ t := by simp
    rw [this, ih (a ++ [s]) (fun r hr => ht r (List.mem_cons_of_mem _ hr))]
    unfold fields
    exact fieldsAux_trailing_space a s hs []

theorem fields_all_spaces (t : List R) (ht : ∀ r ∈ t, r.sp = true) : fields t = [] := by
  have := fields_trailing_spaces [] t ht
  simpa [fields, fieldsAux] using this

/-- a list starting with a non-blank has at least one word -/
theorem fieldsAux_ne_nil_of_cur (rs cur : List R) (hc : cur ≠ []) : fieldsAux rs cur ≠ [] := by
  induction rs generalizing cur with
  | nil => simp [fieldsAux, hc]
  | cons r rs ih =>
    simp only [fieldsAux]
    by_cases hr : r.sp = true
    · simp [hr, hc]
    · have hr' : r.sp = false := by simpa using hr
      simp only [hr', Bool.false_eq_true, if_false]; exact ih _ (by simp)

theorem fields_ne_nil (r : R) (rs : List R) (hr : r.sp = false) : fields (r :: rs) ≠ [] := by
  simp only [fields, fieldsAux, hr, Bool.false_eq_true, if_false]
  exact fieldsAux_ne_nil_of_cur rs [r] (by simp)

/-- without a blank there is at most one word -/
theorem fieldsAux_no_space (rs cur : List R) (h : ∀ r ∈ rs, r.sp = false) : (fieldsAux rs cur).length ≤ 1 := by
  induction rs generalizing cur with
  | nil => simp only [fieldsAux]; split <;> simp
  | cons r rs ih =>
    simp only [fieldsAux, h r (List.mem_cons_self ..), Bool.false_eq_true, if_false]
    exact ih _ (fun x hx => h x (List.mem_cons_of_mem _ hx))

theorem fields_no_space (rs : List R) (h : ∀ r ∈ rs, r.sp = false) : (fields rs).length ≤ 1 :=
  fieldsAux_no_space rs [] h

/-! ### bytes of the words plus one byte per gap fit into the token -/
def spaces (rs : List R) : Nat := (rs.filter (·.sp)).length

theorem width_nil : width ([] : List R) = 0 := rfl
theorem width_cons (r : R) (rs : List R) : width (r :: rs) = r.b.length + width rs := by simp [width]
theorem width_append (a b : List R) : width (a ++ b) = width a + width b := by simp [width]
theorem width_reverse (a : List R) : width a.reverse = width a := by
  induction a with
  | nil => rfl
  | cons r a ih => rw [List.reverse_cons, width_append, width_cons, width_cons, width_nil, ih]; omega

theorem flatten_length (l : List R) : ((l.map (·.b)).flatten).length = width l := by
  induction l with
  | nil => rfl
  | cons r l ih => simp [width_cons, ih]

theorem word_length (cur : List R) : (word cur).length = width cur := by
  unfold word; rw [flatten_length, width_reverse]

/-- bytes of the words plus one per word fit into the runes (+1): every blank rune has ≥ 1 byte -/
theorem fieldsAux_budget (rs cur : List R) (hb : ∀ r ∈ rs, r.sp = true → 1 ≤ r.b.length) :
    ((fieldsAux rs cur).map (·.length)).sum + (fieldsAux rs cur).length ≤ width cur + width rs + 1 := by
  induction rs generalizing cur with
  | nil =>
    simp only [fieldsAux]
    by_cases hc : cur = []
    · simp [hc]
    · have hw : ((cur.reverse.map (·.b)).flatten).length = width cur := word_length cur
      simp only [hc, if_false, List.map_cons, List.map_nil, List.sum_cons, List.sum_nil, List.length_cons, List.length_nil, hw, width_nil]
      omega
  | cons r rs ih =>
    have ih' := fun c => ih c (fun x hx => hb x (List.mem_cons_of_mem _ hx))
    simp only [fieldsAux]
    by_cases hr : r.sp = true
    · have h1 := hb r (List.mem_cons_self ..) hr
      simp only [hr, if_true]
      by_cases hc : cur = []
      · subst hc
        have := ih' []
        simp only [if_true, width_cons, width_nil] at this ⊢
        omega
      · have hw : ((cur.reverse.map (·.b)).flatten).length = width cur := word_length cur
        simp only [hc, if_false, List.map_cons, List.sum_cons, List.length_cons, hw]
        have := ih' []
        rw [width_cons]
        rw [width_nil] at this
        omega
    · have hr' : r.sp = false := by simpa using hr
      simp only [hr', Bool.false_eq_true, if_false]
      have := ih' (r :: cur)
      rw [width_cons] at this ⊢
      omega

theorem fields_budget (t : List R) (hb : ∀ r ∈ t, r.sp = true → 1 ≤ r.b.length) :
    ((fields t).map (·.length)).sum + (fields t).length ≤ width t + 1 := by
  have := fieldsAux_budget t [] hb
  rw [width_nil] at this
  unfold fields; omega

end Pgs.C20
