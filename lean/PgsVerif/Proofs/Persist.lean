import PgsVerif.Model.Persist
import PgsVerif.Proofs.CleanName
/-! Helper lemmas for C10: the flat response is the concatenation of entry blocks. -/
namespace Pgs.Persist
open Pgs

def nameless (c : Bytes) : RF := ⟨none, none, c⟩

/-- the chunks of one entry -/
def chunks : Entry → List RF
  | .file n c apps => ⟨some n, none, c⟩ :: apps.map nameless
  | .inj n ip c => [⟨some n, some ip, c⟩]

def flat (es : List Entry) : List RF := (es.map chunks).flatten

def Entry.name : Entry → Bytes
  | .file n _ _ => n
  | .inj n _ _ => n

/-- every entry carries a non-empty name (names come out of `cleanGeneratorFileName`) -/
def WF (es : List Entry) : Prop := ∀ e ∈ es, e.name ≠ []

theorem flat_nil : flat [] = [] := rfl
theorem flat_cons (e : Entry) (es : List Entry) : flat (e :: es) = chunks e ++ flat es := by simp [flat]
theorem flat_append (a b : List Entry) : flat (a ++ b) = flat a ++ flat b := by simp [flat]

theorem named_nameless (c : Bytes) : named (nameless c) = false := rfl

theorem named_head (e : Entry) (h : e.name ≠ []) : ∃ x t, chunks e = x :: t ∧ named x = true ∧ ∀ y ∈ t, named y = false := by
  cases e with
  | file n c apps =>
    refine ⟨_, _, rfl, ?_, ?_⟩
    · simpa [named, Entry.name] using h
    · intro y hy; obtain ⟨a, _, rfl⟩ := List.mem_map.mp hy; rfl
  | inj n ip c =>
    refine ⟨_, _, rfl, ?_, by simp⟩
    simpa [named, Entry.name] using h

/-- protoc's reading inverts `flat` -/
theorem interp_flat (es : List Entry) (hw : WF es) : ∀ acc, interp (flat es) acc = some (acc.reverse ++ es) := by
  induction es with
  | nil => intro acc; simp [flat, interp]
  | cons e es ih =>
    intro acc
    have hw' : WF es := fun x hx => hw x (List.mem_cons_of_mem _ hx)
    have hn : e.name ≠ [] := hw e (List.mem_cons_self ..)
    rw [flat_cons]
    cases e with
    | inj n ip c =>
      have : named (⟨some n, some ip, c⟩ : RF) = true := by simpa [named, Entry.name] using hn
      simp only [chunks, List.cons_append, List.nil_append, interp, this, if_true, Option.getD_some]
      rw [ih hw']; simp
    | file n c apps =>
      have hnm : named (⟨some n, none, c⟩ : RF) = true := by simpa [named, Entry.name] using hn
      simp only [chunks, List.cons_append, interp, hnm, if_true]
      -- absorb the appended chunks one by one
      have key : ∀ (apps done : List Bytes) (acc : List Entry),
          interp (apps.map nameless ++ flat es) (.file n c done :: acc) =
            interp (flat es) (.file n c (done ++ apps) :: acc) := by
        intro apps
        induction apps with
        | nil => intro done acc; simp
        | cons a apps iha =>
          intro done acc
          simp only [List.map_cons, List.cons_append, interp, named_nameless, Bool.false_eq_true, if_false]
          rw [show (nameless a).content = a from rfl, iha]
          simp
      simp only [Option.getD_some]
      rw [key apps [] acc, ih hw']
      simp

theorem isFileNamed_render_false (n : Bytes) (e : Entry) (h : isFileEntry n e = false) :
    ∀ x ∈ chunks e, isFileNamed n x = false := by
  cases e with
  | inj m ip c => intro x hx; simp [chunks] at hx; subst hx; simp [isFileNamed]
  | file m c apps =>
    intro x hx
    simp only [chunks, List.mem_cons, List.mem_map] at hx
    rcases hx with rfl | ⟨a, _, rfl⟩
    · have : (m == n) = false := by simpa [isFileEntry] using h
      simp [isFileNamed, this]
    · simp [isFileNamed, nameless]

theorem isFileNamed_flat_false (n : Bytes) (es : List Entry) (h : ∀ e ∈ es, isFileEntry n e = false) :
    ∀ x ∈ flat es, isFileNamed n x = false := by
  intro x hx
  simp only [flat, List.mem_flatten, List.mem_map] at hx
  obtain ⟨l, ⟨e, he, rfl⟩, hxl⟩ := hx
  exact isFileNamed_render_false n e (h e he) x hxl

/-- split the entries at the first file entry named `n` -/
theorem split_at_file (n : Bytes) (es : List Entry) (hlt : es.findIdx (isFileEntry n) < es.length) :
    ∃ P c apps Q, es = P ++ Entry.file n c apps :: Q ∧ (∀ e ∈ P, isFileEntry n e = false) ∧
      P.length = es.findIdx (isFileEntry n) := by
  induction es with
  | nil => simp at hlt
  | cons e es ih =>
    by_cases he : isFileEntry n e = true
    · cases e with
      | inj m ip c => simp [isFileEntry] at he
      | file m c apps =>
        have : m = n := by simpa [isFileEntry] using he
        subst this
        exact ⟨[], c, apps, es, rfl, by simp, by simp [List.findIdx_cons, he]⟩
    · have he' : isFileEntry n e = false := by simpa using he
      have hidx : (e :: es).findIdx (isFileEntry n) = es.findIdx (isFileEntry n) + 1 := by
        simp [List.findIdx_cons, he']
      rw [hidx] at hlt
      obtain ⟨P, c, apps, Q, h1, h2, h3⟩ := ih (by simpa using hlt)
      refine ⟨e :: P, c, apps, Q, by rw [h1]; rfl, ?_, by simp [hidx, h3]⟩
      intro x hx
      rcases List.mem_cons.mp hx with rfl | h
      · exact he'
      · exact h2 x h

theorem findIdx_append_of_false {α} (p : α → Bool) (a b : List α) (h : ∀ x ∈ a, p x = false) :
    (a ++ b).findIdx p = a.length + b.findIdx p := by
  induction a with
  | nil => simp
  | cons x a ih =>
    have hx := h x (List.mem_cons_self ..)
    simp only [List.cons_append, List.findIdx_cons, hx, cond_false, List.length_cons]
    rw [ih (fun y hy => h y (List.mem_cons_of_mem _ hy))]; omega

/-- `indexOfFile` on a flat response: the block of the first file entry of that name -/
theorem indexOfFile_flat_some (n c : Bytes) (apps : List Bytes) (P Q : List Entry)
    (hP : ∀ e ∈ P, isFileEntry n e = false) :
    indexOfFile (flat (P ++ Entry.file n c apps :: Q)) n = some (flat P).length := by
  unfold indexOfFile
  rw [flat_append, flat_cons]
  rw [findIdx_append_of_false _ _ _ (isFileNamed_flat_false n P hP)]
  simp [chunks, List.findIdx_cons, isFileNamed]

theorem indexOfFile_flat_none (n : Bytes) (es : List Entry) (h : ¬ es.findIdx (isFileEntry n) < es.length) :
    indexOfFile (flat es) n = none := by
  unfold indexOfFile
  have hall : ∀ e ∈ es, isFileEntry n e = false := by
    intro e he
    cases hb : isFileEntry n e with
    | false => rfl
    | true => exact absurd (List.findIdx_lt_length_of_exists ⟨e, he, hb⟩) h
  have hfi : (flat es).findIdx (isFileNamed n) = (flat es).length := by
    have := findIdx_append_of_false (isFileNamed n) (flat es) [] (isFileNamed_flat_false n es hall)
    simpa using this
  simp [hfi]

theorem modify_at_length {α} (P : List α) (e : α) (Q : List α) (g : α → α) :
    (P ++ e :: Q).modify P.length g = P ++ g e :: Q := by
  induction P with
  | nil => simp [List.modify]
  | cons x P ih => simp [List.modify_succ_cons, ih]

/-- the flat list after the block of `Q`'s first entry starts with a named chunk (or is empty) -/
theorem takeWhile_flat (Q : List Entry) (hw : WF Q) : (flat Q).takeWhile (fun f => !named f) = [] := by
  cases Q with
  | nil => rfl
  | cons e Q =>
    obtain ⟨x, t, hr, hx, _⟩ := named_head e (hw e (List.mem_cons_self ..))
    rw [flat_cons, hr]
    simp [List.takeWhile, hx]

theorem takeWhile_apps (apps : List Bytes) (L : List RF) (hL : L.takeWhile (fun f => !named f) = []) :
    (apps.map nameless ++ L).takeWhile (fun f => !named f) = apps.map nameless := by
  induction apps with
  | nil => simpa using hL
  | cons a apps ih => simp [List.takeWhile, named_nameless, ih]

end Pgs.Persist
