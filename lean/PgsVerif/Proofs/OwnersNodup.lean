import PgsVerif.Proofs.DeclNodup
import PgsVerif.Proofs.HydrateSpec
/-!
# Fields and extensions of a request have pairwise distinct references

Hence the table `g.ftypes` built by hydration is a function of the reference: looking up the type
of a field / extension by reference returns the type of THAT field / extension (C03, C04, C05).
-/
namespace Pgs.AST

/-- the last step of a path is `[a, k]` -/
def EndsWith (a : Nat) (r : Ref) : Prop := ∃ pre k, r.path = pre ++ [a, k]

theorem endsWith_ne {a b : Nat} (hab : a ≠ b) {x y : Ref} (hx : EndsWith a x) (hy : EndsWith b y) : x ≠ y := by
  intro e
  obtain ⟨p1, k1, h1⟩ := hx
  obtain ⟨p2, k2, h2⟩ := hy
  rw [e, h2] at h1
  have := (List.append_inj' h1 (by simp)).2
  simp at this
  exact hab this.1.symm

theorem childRefs_endsWith (fi : Nat) (p : List Nat) (tag n : Nat) : ∀ r ∈ childRefs fi p tag n, EndsWith tag r ∧ r.file = fi := by
  intro r hr
  simp only [childRefs, List.mem_map, List.mem_range] at hr
  obtain ⟨j, _, rfl⟩ := hr
  exact ⟨⟨p, j, rfl⟩, rfl⟩

/-! ### fields -/
theorem fieldsOfMsgs_refs_cons (fi : Nat) (p : List Nat) (tag i : Nat) (h : MsgHead) (nested rest : Msgs) :
    (fieldsOfMsgs fi p tag i (.cons h nested rest)).map (·.1) =
      (childRefs fi (p ++ [tag, i]) 2 h.fields.length ++ (fieldsOfMsgs fi (p ++ [tag, i]) 3 0 nested).map (·.1))
        ++ (fieldsOfMsgs fi p tag (i+1) rest).map (·.1) := by
  simp only [fieldsOfMsgs, List.map_append, List.map_map, childRefs]
  congr 2
  exact idx_map_fst h.fields (fun k => (⟨fi, p ++ [tag, i] ++ [2, k]⟩ : Ref))

theorem fieldsOfMsgs_facts (fi : Nat) : ∀ (ms : Msgs) (p : List Nat) (tag i : Nat),
    Under p tag i ((fieldsOfMsgs fi p tag i ms).map (·.1)) ∧
    ((fieldsOfMsgs fi p tag i ms).map (·.1)).Nodup ∧
    ∀ r ∈ (fieldsOfMsgs fi p tag i ms).map (·.1), EndsWith 2 r ∧ r.file = fi := by
  intro ms
  induction ms with
  | nil => intro p tag i; simp [fieldsOfMsgs, Under]
  | cons h nested rest ih1 ih2 =>
    intro p tag i
    rw [fieldsOfMsgs_refs_cons]
    obtain ⟨un, nn, en⟩ := ih1 (p ++ [tag, i]) 3 0
    obtain ⟨ur, nr, er⟩ := ih2 p tag (i+1)
    have u2 := childRefs_under fi (p ++ [tag, i]) 2 h.fields.length
    have hat : UnderAt p tag i (childRefs fi (p ++ [tag, i]) 2 h.fields.length ++ (fieldsOfMsgs fi (p ++ [tag, i]) 3 0 nested).map (·.1)) :=
      (UnderTags.cons u2 un.tags).lift
    refine ⟨hat.under.append (ur.weaken (Nat.le_succ i)), ?_, ?_⟩
    · exact List.nodup_append.mpr ⟨nodup_append_tags u2 un.tags (by decide) (childRefs_nodup ..) nn, nr, disjoint_index hat ur⟩
    · intro r hr
      simp only [List.mem_append] at hr
      rcases hr with (hr | hr) | hr
      · exact childRefs_endsWith _ _ _ _ r hr
      · exact en r hr
      · exact er r hr

/-! ### extensions -/
theorem extsOfMsgs_refs_cons (fi : Nat) (p : List Nat) (tag i : Nat) (h : MsgHead) (nested rest : Msgs) :
    (extsOfMsgs fi p tag i (.cons h nested rest)).map (·.1) =
      ((extsOfMsgs fi (p ++ [tag, i]) 3 0 nested).map (·.1) ++ childRefs fi (p ++ [tag, i]) 6 h.exts.length)
        ++ (extsOfMsgs fi p tag (i+1) rest).map (·.1) := by
  simp only [extsOfMsgs, List.map_append, List.map_map, childRefs]
  congr 2
  exact idx_map_fst h.exts (fun k => (⟨fi, p ++ [tag, i] ++ [6, k]⟩ : Ref))

theorem extsOfMsgs_facts (fi : Nat) : ∀ (ms : Msgs) (p : List Nat) (tag i : Nat),
    Under p tag i ((extsOfMsgs fi p tag i ms).map (·.1)) ∧
    ((extsOfMsgs fi p tag i ms).map (·.1)).Nodup ∧
    ∀ r ∈ (extsOfMsgs fi p tag i ms).map (·.1), EndsWith 6 r ∧ r.file = fi := by
  intro ms
  induction ms with
  | nil => intro p tag i; simp [extsOfMsgs, Under]
  | cons h nested rest ih1 ih2 =>
    intro p tag i
    rw [extsOfMsgs_refs_cons]
    obtain ⟨un, nn, en⟩ := ih1 (p ++ [tag, i]) 3 0
    obtain ⟨ur, nr, er⟩ := ih2 p tag (i+1)
    have u6 := childRefs_under fi (p ++ [tag, i]) 6 h.exts.length
    have hat : UnderAt p tag i ((extsOfMsgs fi (p ++ [tag, i]) 3 0 nested).map (·.1) ++ childRefs fi (p ++ [tag, i]) 6 h.exts.length) :=
      (UnderTags.cons un u6.tags).lift
    refine ⟨hat.under.append (ur.weaken (Nat.le_succ i)), ?_, ?_⟩
    · exact List.nodup_append.mpr ⟨nodup_append_tags un u6.tags (by decide) nn (childRefs_nodup ..), nr, disjoint_index hat ur⟩
    · intro r hr
      simp only [List.mem_append] at hr
      rcases hr with (hr | hr) | hr
      · exact en r hr
      · exact childRefs_endsWith _ _ _ _ r hr
      · exact er r hr

theorem extsOfFile_facts (fi : Nat) (f : FileD) :
    ((extsOfFile fi f).map (·.1)).Nodup ∧
    ∀ r ∈ (extsOfFile fi f).map (·.1), (EndsWith 6 r ∨ EndsWith 7 r) ∧ r.file = fi := by
  obtain ⟨um, nm, em⟩ := extsOfMsgs_facts fi f.msgs [] 4 0
  have hrefs : (extsOfFile fi f).map (·.1) = childRefs fi [] 7 f.exts.length ++ (extsOfMsgs fi [] 4 0 f.msgs).map (·.1) := by
    simp only [extsOfFile, List.map_append, List.map_map, childRefs]
    congr 1
    exact idx_map_fst f.exts (fun k => (⟨fi, [7, k]⟩ : Ref))
  rw [hrefs]
  refine ⟨nodup_append_tags (childRefs_under fi [] 7 _) um.tags (by decide) (childRefs_nodup ..) nm, ?_⟩
  intro r hr
  rcases List.mem_append.mp hr with hr | hr
  · have := childRefs_endsWith _ _ _ _ r hr; exact ⟨.inr this.1, this.2⟩
  · have := em r hr; exact ⟨.inl this.1, this.2⟩

/-! ### the whole request -/
/-- fields of the files `fs` numbered from `n` -/
def fieldsFrom : Nat → List FileD → List (Ref × FieldD)
  | _, [] => []
  | n, f :: fs => fieldsOfMsgs n [] 4 0 f.msgs ++ fieldsFrom (n+1) fs

theorem fieldsFrom_idx : ∀ (fs : List FileD) (n : Nat),
    ((idx fs).map fun (q : Nat × FileD) => fieldsOfMsgs (n + q.1) [] 4 0 q.2.msgs).flatten = fieldsFrom n fs := by
  intro fs
  induction fs with
  | nil => intro n; rfl
  | cons f fs ih =>
    intro n
    rw [idx_cons]
    simp only [List.map_cons, List.flatten_cons, List.map_map, Nat.add_zero, fieldsFrom]
    congr 1
    rw [← ih (n+1)]
    congr 1
    apply List.map_congr_left
    intro q _
    simp only [Function.comp]
    have : n + (q.1 + 1) = n + 1 + q.1 := by omega
    rw [this]

theorem allFields_eq (w : World) : allFields w = fieldsFrom 0 w.files := by
  unfold allFields
  have := fieldsFrom_idx w.files 0
  simp only [Nat.zero_add] at this
  rw [← this]

theorem fieldsFrom_facts : ∀ (fs : List FileD) (n : Nat),
    ((fieldsFrom n fs).map (·.1)).Nodup ∧ ∀ r ∈ (fieldsFrom n fs).map (·.1), EndsWith 2 r ∧ n ≤ r.file := by
  intro fs
  induction fs with
  | nil => intro n; simp [fieldsFrom]
  | cons f fs ih =>
    intro n
    obtain ⟨_, nf, ef⟩ := fieldsOfMsgs_facts n f.msgs [] 4 0
    obtain ⟨nr, er⟩ := ih (n+1)
    simp only [fieldsFrom, List.map_append]
    refine ⟨List.nodup_append.mpr ⟨nf, nr, ?_⟩, ?_⟩
    · intro x hx y hy e
      have a := (ef x hx).2
      have b := (er y hy).2
      rw [e] at a; omega
    · intro r hr
      rcases List.mem_append.mp hr with hr | hr
      · have := ef r hr; exact ⟨this.1, by omega⟩
      · have := er r hr; exact ⟨this.1, by omega⟩

theorem allExts_facts : ∀ (fs : List FileD) (n : Nat),
    ((allExts n fs).map (·.1)).Nodup ∧ ∀ r ∈ (allExts n fs).map (·.1), (EndsWith 6 r ∨ EndsWith 7 r) ∧ n ≤ r.file := by
  intro fs
  induction fs with
  | nil => intro n; simp [allExts]
  | cons f fs ih =>
    intro n
    obtain ⟨nf, ef⟩ := extsOfFile_facts n f
    obtain ⟨nr, er⟩ := ih (n+1)
    simp only [allExts, List.map_append]
    refine ⟨List.nodup_append.mpr ⟨nf, nr, ?_⟩, ?_⟩
    · intro x hx y hy e
      have a := (ef x hx).2
      have b := (er y hy).2
      rw [e] at a; omega
    · intro r hr
      rcases List.mem_append.mp hr with hr | hr
      · have := ef r hr; exact ⟨this.1, by omega⟩
      · have := er r hr; exact ⟨this.1, by omega⟩

/-- **owners are distinct**: no two fields / extensions of a request share a reference -/
theorem owners_nodup (w : World) : ((allFields w ++ allExts 0 w.files).map (·.1)).Nodup := by
  rw [allFields_eq, List.map_append]
  obtain ⟨nf, ef⟩ := fieldsFrom_facts w.files 0
  obtain ⟨nx, ex⟩ := allExts_facts w.files 0
  refine List.nodup_append.mpr ⟨nf, nx, ?_⟩
  intro x hx y hy
  rcases (ex y hy).1 with h | h
  · exact endsWith_ne (by decide) (ef x hx).1 h
  · exact endsWith_ne (by decide) (ef x hx).1 h

/-- lookup in a table keyed by distinct references -/
theorem find_of_nodup {β γ : Type} (F : β → γ) : ∀ (l : List (Ref × β)), (l.map (·.1)).Nodup → ∀ x ∈ l,
    (l.map fun y => (y.1, F y.2)).find? (·.1 == x.1) = some (x.1, F x.2) := by
  intro l
  induction l with
  | nil => intro _ x hx; simp at hx
  | cons a l ih =>
    intro hnd x hx
    simp only [List.map_cons, List.nodup_cons] at hnd
    simp only [List.map_cons, List.find?_cons]
    rcases List.mem_cons.mp hx with rfl | hx
    · simp
    · have : (a.1 == x.1) = false := by
        simp only [beq_eq_false_iff_ne, ne_eq]
        intro e
        exact hnd.1 (e ▸ List.mem_map_of_mem hx)
      simp only [this]
      exact ih hnd.2 x hx

end Pgs.AST
