import PgsVerif.Proofs.WalkTree
/-!
# The containment pre-order lists no entity twice

References are (file, SourceCodeInfo-style path).  Everything below a node with path `q` reached
through descriptor field `a`, index `j`, has a path `q ++ a :: j :: …`; different fields or different
indices give different paths, so the pre-order of the forest of a file has no repetition.
-/
namespace Pgs.AST

/-- every reference of `L` lies under `q`, through field `a`, at an index `≥ i` -/
def Under (q : List Nat) (a i : Nat) (L : List Ref) : Prop :=
  ∀ r ∈ L, ∃ j t, i ≤ j ∧ r.path = q ++ a :: j :: t

/-- … at exactly index `i` -/
def UnderAt (q : List Nat) (a i : Nat) (L : List Ref) : Prop :=
  ∀ r ∈ L, ∃ t, r.path = q ++ a :: i :: t

theorem Under.weaken {q a i i' L} (h : Under q a i L) (hi : i' ≤ i) : Under q a i' L := by
  intro r hr; obtain ⟨j, t, hj, hp⟩ := h r hr; exact ⟨j, t, by omega, hp⟩

theorem Under.append {q a i L M} (h1 : Under q a i L) (h2 : Under q a i M) : Under q a i (L ++ M) := by
  intro r hr; rcases List.mem_append.mp hr with h | h
  · exact h1 r h
  · exact h2 r h

theorem UnderAt.under {q a i L} (h : UnderAt q a i L) : Under q a i L := by
  intro r hr; obtain ⟨t, hp⟩ := h r hr; exact ⟨i, t, Nat.le_refl _, hp⟩

/-- below the node `q ++ [a, i]` means under `q` at index `i` -/
theorem Under.lift {q : List Nat} {a i b k : Nat} {L : List Ref} (h : Under (q ++ [a, i]) b k L) : UnderAt q a i L := by
  intro r hr; obtain ⟨j, t, _, hp⟩ := h r hr
  exact ⟨b :: j :: t, by rw [hp]; simp⟩

theorem disjoint_tag {q : List Nat} {a b i j : Nat} {L M : List Ref} (h1 : Under q a i L) (h2 : Under q b j M) (hab : a ≠ b) :
    ∀ x ∈ L, ∀ y ∈ M, x ≠ y := by
  intro x hx y hy e
  obtain ⟨_, _, _, p1⟩ := h1 x hx
  obtain ⟨_, _, _, p2⟩ := h2 y hy
  rw [e, p2] at p1
  have := List.append_cancel_left p1
  simp at this
  exact hab this.1.symm

theorem disjoint_index {q : List Nat} {a i : Nat} {L M : List Ref} (h1 : UnderAt q a i L) (h2 : Under q a (i+1) M) :
    ∀ x ∈ L, ∀ y ∈ M, x ≠ y := by
  intro x hx y hy e
  obtain ⟨_, p1⟩ := h1 x hx
  obtain ⟨j, _, hj, p2⟩ := h2 y hy
  rw [e, p2] at p1
  have := List.append_cancel_left p1
  simp at this
  omega

theorem self_not_under {fi : Nat} {q : List Nat} {a i : Nat} {L : List Ref} (h : Under q a i L) : (⟨fi, q⟩ : Ref) ∉ L := by
  intro hm
  obtain ⟨j, t, _, p⟩ := h _ hm
  have := congrArg List.length p
  simp at this

theorem childRefs_under (fi : Nat) (p : List Nat) (tag n : Nat) : Under p tag 0 (childRefs fi p tag n) := by
  intro r hr
  simp only [childRefs, List.mem_map, List.mem_range] at hr
  obtain ⟨j, _, rfl⟩ := hr
  exact ⟨j, [], Nat.zero_le _, rfl⟩

theorem childRefs_nodup (fi : Nat) (p : List Nat) (tag n : Nat) : (childRefs fi p tag n).Nodup := by
  unfold childRefs
  apply List.Pairwise.map _ _ List.nodup_range
  intro a b hab e
  simp at e
  exact hab e

theorem leaf_node_nodup (fi : Nat) (q : List Nat) (n : Nat) :
    ((⟨fi, q⟩ : Ref) :: childRefs fi q 2 n).Nodup :=
  List.nodup_cons.mpr ⟨self_not_under (childRefs_under fi q 2 n), childRefs_nodup fi q 2 n⟩

theorem leaf_node_underAt (fi : Nat) (p : List Nat) (tag i n : Nat) :
    UnderAt p tag i ((⟨fi, p ++ [tag, i]⟩ : Ref) :: childRefs fi (p ++ [tag, i]) 2 n) := by
  intro r hr
  rcases List.mem_cons.mp hr with rfl | hr
  · exact ⟨[], rfl⟩
  · exact (childRefs_under fi (p ++ [tag, i]) 2 n).lift r hr

/-! ### enums and services (a node with leaves, per index) -/
theorem enumsF_under (fi : Nat) (p : List Nat) (tag : Nat) : ∀ (es : List EnumD) (i : Nat), Under p tag i (enumsF fi p tag i es).pre := by
  intro es
  induction es with
  | nil => intro i r hr; simp [enumsF, Forest.pre] at hr
  | cons e es ih =>
    intro i
    simp only [enumsF, Forest.pre, leavesF_pre]
    have h1 := (leaf_node_underAt fi p tag i e.values.length).under
    have h2 := (ih (i+1)).weaken (Nat.le_succ i)
    have := h1.append h2
    simpa using this

theorem enumsF_nodup (fi : Nat) (p : List Nat) (tag : Nat) : ∀ (es : List EnumD) (i : Nat), (enumsF fi p tag i es).pre.Nodup := by
  intro es
  induction es with
  | nil => intro i; simp [enumsF, Forest.pre]
  | cons e es ih =>
    intro i
    simp only [enumsF, Forest.pre, leavesF_pre]
    have : (((⟨fi, p ++ [tag, i]⟩ : Ref) :: childRefs fi (p ++ [tag, i]) 2 e.values.length) ++ (enumsF fi p tag (i+1) es).pre).Nodup :=
      List.nodup_append.mpr ⟨leaf_node_nodup fi _ _, ih (i+1),
        disjoint_index (leaf_node_underAt fi p tag i _) (enumsF_under fi p tag es (i+1))⟩
    simpa using this

theorem servicesF_under (fi : Nat) : ∀ (ss : List ServiceD) (i : Nat), Under [] 6 i (servicesF fi i ss).pre := by
  intro ss
  induction ss with
  | nil => intro i r hr; simp [servicesF, Forest.pre] at hr
  | cons s ss ih =>
    intro i
    simp only [servicesF, Forest.pre, leavesF_pre]
    have h1 := (leaf_node_underAt fi [] 6 i s.methods.length).under
    have h2 := (ih (i+1)).weaken (Nat.le_succ i)
    have := h1.append h2
    simpa using this

theorem servicesF_nodup (fi : Nat) : ∀ (ss : List ServiceD) (i : Nat), (servicesF fi i ss).pre.Nodup := by
  intro ss
  induction ss with
  | nil => intro i; simp [servicesF, Forest.pre]
  | cons s ss ih =>
    intro i
    simp only [servicesF, Forest.pre, leavesF_pre]
    have : (((⟨fi, [] ++ [6, i]⟩ : Ref) :: childRefs fi ([] ++ [6, i]) 2 s.methods.length) ++ (servicesF fi (i+1) ss).pre).Nodup :=
      List.nodup_append.mpr ⟨leaf_node_nodup fi _ _, ih (i+1),
        disjoint_index (leaf_node_underAt fi [] 6 i _) (servicesF_under fi ss (i+1))⟩
    simpa using this

end Pgs.AST

/-! ### messages -/
namespace Pgs.AST

/-- the contents of the message at `here` -/
def msgKids (fi : Nat) (here : List Nat) (h : MsgHead) (nestedPre : List Ref) : List Ref :=
  (enumsF fi here 4 0 h.enums).pre ++ (nestedPre ++ (childRefs fi here 2 h.fields.length ++
    (childRefs fi here 8 h.oneofs.length ++ childRefs fi here 6 h.exts.length)))

theorem msgKids_nodup (fi : Nat) (here : List Nat) (h : MsgHead) (nestedPre : List Ref)
    (hu : Under here 3 0 nestedPre) (hn : nestedPre.Nodup) : (msgKids fi here h nestedPre).Nodup := by
  unfold msgKids
  have u4 := enumsF_under fi here 4 h.enums 0
  have u2 := childRefs_under fi here 2 h.fields.length
  have u8 := childRefs_under fi here 8 h.oneofs.length
  have u6 := childRefs_under fi here 6 h.exts.length
  refine List.nodup_append.mpr ⟨enumsF_nodup fi here 4 h.enums 0, ?_, ?_⟩
  · refine List.nodup_append.mpr ⟨hn, ?_, ?_⟩
    · refine List.nodup_append.mpr ⟨childRefs_nodup .., ?_, ?_⟩
      · exact List.nodup_append.mpr ⟨childRefs_nodup .., childRefs_nodup .., disjoint_tag u8 u6 (by decide)⟩
      · intro x hx y hy
        rcases List.mem_append.mp hy with hy | hy
        · exact disjoint_tag u2 u8 (by decide) x hx y hy
        · exact disjoint_tag u2 u6 (by decide) x hx y hy
    · intro x hx y hy
      rcases List.mem_append.mp hy with hy | hy
      · exact disjoint_tag hu u2 (by decide) x hx y hy
      · rcases List.mem_append.mp hy with hy | hy
        · exact disjoint_tag hu u8 (by decide) x hx y hy
        · exact disjoint_tag hu u6 (by decide) x hx y hy
  · intro x hx y hy
    rcases List.mem_append.mp hy with hy | hy
    · exact disjoint_tag u4 hu (by decide) x hx y hy
    · rcases List.mem_append.mp hy with hy | hy
      · exact disjoint_tag u4 u2 (by decide) x hx y hy
      · rcases List.mem_append.mp hy with hy | hy
        · exact disjoint_tag u4 u8 (by decide) x hx y hy
        · exact disjoint_tag u4 u6 (by decide) x hx y hy

/-- everything in the contents lies below `here` -/
theorem msgKids_below (fi : Nat) (here : List Nat) (h : MsgHead) (nestedPre : List Ref) (hu : Under here 3 0 nestedPre) :
    ∀ r ∈ msgKids fi here h nestedPre, ∃ a j t, r.path = here ++ a :: j :: t := by
  intro r hr
  unfold msgKids at hr
  have u4 := enumsF_under fi here 4 h.enums 0
  have u2 := childRefs_under fi here 2 h.fields.length
  have u8 := childRefs_under fi here 8 h.oneofs.length
  have u6 := childRefs_under fi here 6 h.exts.length
  simp only [List.mem_append] at hr
  rcases hr with hr | hr | hr | hr | hr
  · obtain ⟨j, t, _, p⟩ := u4 r hr; exact ⟨4, j, t, p⟩
  · obtain ⟨j, t, _, p⟩ := hu r hr; exact ⟨3, j, t, p⟩
  · obtain ⟨j, t, _, p⟩ := u2 r hr; exact ⟨2, j, t, p⟩
  · obtain ⟨j, t, _, p⟩ := u8 r hr; exact ⟨8, j, t, p⟩
  · obtain ⟨j, t, _, p⟩ := u6 r hr; exact ⟨6, j, t, p⟩

theorem msgsF_pre_cons (fi : Nat) (p : List Nat) (tag i : Nat) (h : MsgHead) (nested rest : Msgs) (hm : h.mapEntry = false) :
    (msgsF fi p tag i (.cons h nested rest)).pre =
      (⟨fi, p ++ [tag, i]⟩ : Ref) :: msgKids fi (p ++ [tag, i]) h (msgsF fi (p ++ [tag, i]) 3 0 nested).pre
        ++ (msgsF fi p tag (i+1) rest).pre := by
  simp [msgsF, hm, Forest.pre, Forest.pre_append, leavesF_pre, msgKids]

theorem msgsF_under (fi : Nat) : ∀ (ms : Msgs) (p : List Nat) (tag i : Nat), Under p tag i (msgsF fi p tag i ms).pre := by
  intro ms
  induction ms with
  | nil => intro p tag i r hr; simp [msgsF, Forest.pre] at hr
  | cons h nested rest ih1 ih2 =>
    intro p tag i
    by_cases hm : h.mapEntry = true
    · simp only [msgsF, hm, if_true]
      exact (ih2 p tag (i+1)).weaken (Nat.le_succ i)
    · have hm' : h.mapEntry = false := by simpa using hm
      rw [msgsF_pre_cons _ _ _ _ _ _ _ hm']
      intro r hr
      rcases List.mem_append.mp hr with hr | hr
      · rcases List.mem_cons.mp hr with rfl | hr
        · exact ⟨i, [], Nat.le_refl _, rfl⟩
        · obtain ⟨a, j, t, hp⟩ := msgKids_below fi _ h _ (ih1 (p ++ [tag, i]) 3 0) r hr
          exact ⟨i, a :: j :: t, Nat.le_refl _, by rw [hp]; simp⟩
      · exact (ih2 p tag (i+1)).weaken (Nat.le_succ i) r hr

theorem msgsF_nodup (fi : Nat) : ∀ (ms : Msgs) (p : List Nat) (tag i : Nat), (msgsF fi p tag i ms).pre.Nodup := by
  intro ms
  induction ms with
  | nil => intro p tag i; simp [msgsF, Forest.pre]
  | cons h nested rest ih1 ih2 =>
    intro p tag i
    by_cases hm : h.mapEntry = true
    · simp only [msgsF, hm, if_true]
      exact ih2 p tag (i+1)
    · have hm' : h.mapEntry = false := by simpa using hm
      rw [msgsF_pre_cons _ _ _ _ _ _ _ hm']
      have hu := msgsF_under fi nested (p ++ [tag, i]) 3 0
      have hkids := msgKids_nodup fi (p ++ [tag, i]) h _ hu (ih1 (p ++ [tag, i]) 3 0)
      have hbelow := msgKids_below fi (p ++ [tag, i]) h _ hu
      -- the message and its contents lie under `p` at index `i`; the later siblings at `≥ i+1`
      have hat : UnderAt p tag i ((⟨fi, p ++ [tag, i]⟩ : Ref) :: msgKids fi (p ++ [tag, i]) h (msgsF fi (p ++ [tag, i]) 3 0 nested).pre) := by
        intro r hr
        rcases List.mem_cons.mp hr with rfl | hr
        · exact ⟨[], rfl⟩
        · obtain ⟨a, j, t, hp⟩ := hbelow r hr
          exact ⟨a :: j :: t, by rw [hp]; simp⟩
      have hself : (⟨fi, p ++ [tag, i]⟩ : Ref) ∉ msgKids fi (p ++ [tag, i]) h (msgsF fi (p ++ [tag, i]) 3 0 nested).pre := by
        intro hmem
        obtain ⟨a, j, t, hp⟩ := hbelow _ hmem
        have := congrArg List.length hp
        simp at this
      have : (((⟨fi, p ++ [tag, i]⟩ : Ref) :: msgKids fi (p ++ [tag, i]) h (msgsF fi (p ++ [tag, i]) 3 0 nested).pre)
          ++ (msgsF fi p tag (i+1) rest).pre).Nodup :=
        List.nodup_append.mpr ⟨List.nodup_cons.mpr ⟨hself, hkids⟩, ih2 p tag (i+1),
          disjoint_index hat (msgsF_under fi rest p tag (i+1))⟩
      simpa using this

/-- **the pre-order of a file's forest has no repetition** -/
theorem fileF_nodup (fi : Nat) (f : FileD) : (fileF fi f).pre.Nodup := by
  have u5 := enumsF_under fi [] 5 f.enums 0
  have u4 := msgsF_under fi f.msgs [] 4 0
  have u6 := servicesF_under fi f.services 0
  have u7 := childRefs_under fi [] 7 f.exts.length
  simp only [fileF, fileKidsF, Forest.pre, Forest.pre_append, leavesF_pre, List.append_nil]
  refine List.nodup_cons.mpr ⟨?_, ?_⟩
  · intro hm
    simp only [List.mem_append] at hm
    rcases hm with hm | hm | hm | hm
    · exact self_not_under u5 hm
    · exact self_not_under u4 hm
    · exact self_not_under u6 hm
    · exact self_not_under u7 hm
  · refine List.nodup_append.mpr ⟨enumsF_nodup .., ?_, ?_⟩
    · refine List.nodup_append.mpr ⟨msgsF_nodup .., ?_, ?_⟩
      · exact List.nodup_append.mpr ⟨servicesF_nodup .., childRefs_nodup .., disjoint_tag u6 u7 (by decide)⟩
      · intro x hx y hy
        rcases List.mem_append.mp hy with hy | hy
        · exact disjoint_tag u4 u6 (by decide) x hx y hy
        · exact disjoint_tag u4 u7 (by decide) x hx y hy
    · intro x hx y hy
      rcases List.mem_append.mp hy with hy | hy
      · exact disjoint_tag u5 u4 (by decide) x hx y hy
      · rcases List.mem_append.mp hy with hy | hy
        · exact disjoint_tag u5 u6 (by decide) x hx y hy
        · exact disjoint_tag u5 u7 (by decide) x hx y hy

end Pgs.AST
