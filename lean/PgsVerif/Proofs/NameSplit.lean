import PgsVerif.Model.NameSplit
import PgsVerif.Proofs.Bytes
/-! Helper lemmas for C15. -/
namespace Pgs.C15
open Pgs

theorem dropLast_getLast {α} (l : List α) (x : α) (h : l.getLast? = some x) : l.dropLast ++ [x] = l := by
  induction l with
  | nil => simp at h
  | cons a t ih =>
    cases t with
    | nil => simp at h; simp [h]
    | cons b t' =>
      simp only [List.getLast?_cons_cons] at h
      simp [List.dropLast, ih h]

/-- one scanner step appends exactly the rune read to `parts.flatten ++ buf` -/
theorem step_flat (up dg : Nat → Bool) (s : St) (r : Nat) :
    ((step up dg s r).parts.flatten ++ (step up dg s r).buf) = (s.parts.flatten ++ s.buf) ++ [r] := by
  unfold step
  simp only []
  repeat' split
  all_goals first
    | (simp [List.flatten_append]; done)
    | (rename_i pr hb
       have e := dropLast_getLast _ _ hb
       simp only [List.flatten_append, List.flatten_cons, List.flatten_nil, List.append_nil, List.append_assoc]
       conv => rhs; rw [← e]
       simp)

theorem foldl_flat (up dg : Nat → Bool) (rs : Runes) (s : St) :
    ((rs.foldl (step up dg) s).parts.flatten ++ (rs.foldl (step up dg) s).buf) = (s.parts.flatten ++ s.buf) ++ rs := by
  induction rs generalizing s with
  | nil => simp
  | cons r rs ih => simp [List.foldl, ih, step_flat]

theorem camel_flatten (up dg : Nat → Bool) (rs : Runes) : (camel up dg rs).flatten = rs := by
  unfold camel
  simp only [List.flatten_append, List.flatten_cons, List.flatten_nil, List.append_nil]
  have := foldl_flat up dg rs St.init
  simpa [St.init] using this

theorem joinWith_nil (ps : List Runes) : joinWith [] ps = ps.flatten := by
  induction ps with
  | nil => rfl
  | cons p ps ih =>
    cases ps with
    | nil => simp [joinWith]
    | cons q qs => rw [joinWith_cons_cons, ih]; simp

/-- invariant of the scanner: no completed part is empty, and the buffer is non-empty once a
    rune has been read -/
theorem step_nonempty (up dg : Nat → Bool) (s : St) (r : Nat)
    (hp : ∀ p ∈ s.parts, p ≠ []) :
    (∀ p ∈ (step up dg s r).parts, p ≠ []) ∧ (step up dg s r).buf ≠ [] := by
  refine ⟨?_, by simp [step]⟩
  unfold step
  simp only []
  repeat' split
  all_goals
    intro p hp'
    simp only [List.mem_append, List.mem_singleton] at hp'
    first
      | exact hp p hp'
      | (rcases hp' with h | h
         · exact hp p h
         · subst h
           first
             | (intro e; simp_all; done)
             | (rename_i hlen _ _ _ _
                intro e
                have h1 := congrArg List.length e
                simp only [List.length_dropLast, List.length_nil] at h1
                simp only [Bool.and_eq_true, decide_eq_true_eq] at hlen
                omega))

end Pgs.C15
