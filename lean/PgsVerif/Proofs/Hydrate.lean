import PgsVerif.Model.Hydrate
/-! Helper lemmas for C01 / C02: the index timeline of the AST builder. -/
namespace Pgs.AST

/-! ### lookups in an index with distinct keys -/
theorem lookup_of_mem (s : Seen) (h : (s.map (·.key)).Nodup) (d : Decl) (hd : d ∈ s) : lookup s d.key = some d := by
  induction s with
  | nil => simp at hd
  | cons x s ih =>
    simp only [List.map_cons, List.nodup_cons] at h
    unfold lookup
    simp only [List.find?_cons]
    rcases List.mem_cons.mp hd with rfl | hd'
    · simp
    · have : (x.key == d.key) = false := by
        simp only [beq_eq_false_iff_ne, ne_eq]
        intro e
        exact h.1 (e ▸ List.mem_map_of_mem hd')
      simp only [this]
      exact ih h.2 hd'

theorem lookup_none (s : Seen) (k : String) (h : k ∉ s.map (·.key)) : lookup s k = none := by
  unfold lookup
  simp only [List.find?_eq_none]
  intro d hd
  simp only [beq_iff_eq]
  intro e
  exact h (e ▸ List.mem_map_of_mem hd)

theorem mustSeen_ok (s : Seen) (h : (s.map (·.key)).Nodup) (d : Decl) (hd : d ∈ s) :
    mustSeen s d.key d.kind = .ok d.ref := by
  simp [mustSeen, lookup_of_mem s h d hd]

/-- "`k` names a declaration of kind `kind` among `ds`" -/
def Resolves (ds : List Decl) (k : String) (kind : Kind) : Prop := ∃ d ∈ ds, d.key = k ∧ d.kind = kind

theorem mustSeen_of_resolves (s : Seen) (h : (s.map (·.key)).Nodup) (k : String) (kind : Kind)
    (hr : Resolves s k kind) : ∃ r, mustSeen s k kind = .ok r := by
  obtain ⟨d, hd, rfl, rfl⟩ := hr
  exact ⟨d.ref, mustSeen_ok s h d hd⟩

theorem Resolves.mono {a b : List Decl} {k : String} {kind : Kind} (h : Resolves a k kind) (hs : ∀ d ∈ a, d ∈ b) :
    Resolves b k kind := by
  obtain ⟨d, hd, h1, h2⟩ := h
  exact ⟨d, hs d hd, h1, h2⟩

/-! ### `idx` and explicit index recursion -/
theorem idx_cons {α} (a : α) (l : List α) : idx (a :: l) = (0, a) :: (idx l).map (fun p => (p.1 + 1, p.2)) := by
  unfold idx
  simp only [List.length_cons, List.range_succ_eq_map, List.zip_cons_cons, List.zip_map_left]
  congr 1

theorem idx_mem {α} : ∀ (l : List α) (k : Nat) (x : α), (k, x) ∈ idx l → l[k]? = some x := by
  intro l
  induction l with
  | nil => intro k x h; simp [idx] at h
  | cons a l ih =>
    intro k x h
    rw [idx_cons] at h
    rcases List.mem_cons.mp h with h | h
    · cases h; rfl
    · simp only [List.mem_map] at h
      obtain ⟨⟨k', x'⟩, hm, he⟩ := h
      cases he
      simpa using ih k' x' hm

theorem idx_mem_lt {α} (l : List α) (k : Nat) (x : α) (h : (k, x) ∈ idx l) : k < l.length := by
  have := idx_mem l k x h
  exact (List.getElem?_eq_some_iff.mp this).1

theorem idx_of_get {α} : ∀ (l : List α) (k : Nat) (x : α), l[k]? = some x → (k, x) ∈ idx l := by
  intro l
  induction l with
  | nil => intro k x h; simp at h
  | cons a l ih =>
    intro k x h
    rw [idx_cons]
    cases k with
    | zero => simp at h; simp [h]
    | succ k =>
      simp only [List.getElem?_cons_succ] at h
      exact List.mem_cons_of_mem _ (List.mem_map.mpr ⟨(k, x), ih k x h, rfl⟩)

theorem filterMap_congr_mem' {α β} {f g : α → Option β} : ∀ {l : List α}, (∀ x ∈ l, f x = g x) → l.filterMap f = l.filterMap g := by
  intro l
  induction l with
  | nil => intro _; rfl
  | cons a l ih =>
    intro h
    simp only [List.filterMap_cons, h a (List.mem_cons_self ..)]
    rw [ih (fun x hx => h x (List.mem_cons_of_mem _ hx))]

/-- methods of a service from index `j` -/
def declMethodsFrom (fi si : Nat) (fqn : String) : Nat → List MethodD → List Decl
  | _, [] => []
  | j, m :: ms => ⟨fqn ++ "." ++ m.name, ⟨fi, [6, si, 2, j]⟩, .method⟩ :: declMethodsFrom fi si fqn (j+1) ms

theorem declMethods_idx (fi si : Nat) (fqn : String) (ms : List MethodD) : ∀ j,
    ((idx ms).map fun (p : Nat × MethodD) => (⟨fqn ++ "." ++ p.2.name, ⟨fi, [6, si, 2, j + p.1]⟩, .method⟩ : Decl))
      = declMethodsFrom fi si fqn j ms := by
  induction ms with
  | nil => intro j; rfl
  | cons m ms ih =>
    intro j
    rw [idx_cons]
    simp only [List.map_cons, List.map_map, declMethodsFrom, Nat.add_zero]
    congr 1
    rw [← ih (j+1)]
    apply List.map_congr_left
    intro p _
    simp only [Function.comp]
    have : j + (p.1 + 1) = j + 1 + p.1 := by omega
    rw [this]

def declSvcFrom (fi : Nat) (scope : String) (i : Nat) (s : ServiceD) : List Decl :=
  ⟨scope ++ "." ++ s.name, ⟨fi, [6, i]⟩, .service⟩ :: declMethodsFrom fi i (scope ++ "." ++ s.name) 0 s.methods

theorem declService_eq (fi : Nat) (scope : String) (i : Nat) (s : ServiceD) :
    declService fi scope i s = declSvcFrom fi scope i s := by
  unfold declService declSvcFrom
  simp only
  congr 1
  have := declMethods_idx fi i (scope ++ "." ++ s.name) s.methods 0
  simp only [Nat.zero_add] at this
  exact this

def declSvcsFrom (fi : Nat) (scope : String) : Nat → List ServiceD → List Decl
  | _, [] => []
  | i, s :: ss => declSvcFrom fi scope i s ++ declSvcsFrom fi scope (i+1) ss

theorem declServices_idx (fi : Nat) (scope : String) (svcs : List ServiceD) : ∀ i,
    ((idx svcs).map fun (p : Nat × ServiceD) => declService fi scope (i + p.1) p.2).flatten = declSvcsFrom fi scope i svcs := by
  induction svcs with
  | nil => intro i; rfl
  | cons s ss ih =>
    intro i
    rw [idx_cons]
    simp only [List.map_cons, List.flatten_cons, List.map_map, Nat.add_zero, declSvcsFrom, declService_eq]
    congr 1
    rw [← ih (i+1)]
    congr 1
    apply List.map_congr_left
    intro p _
    simp only [Function.comp, declService_eq]
    congr 1
    omega

theorem declServices_eq (fi : Nat) (f : FileD) : declServices fi f = declSvcsFrom fi (fileScope f) 0 f.services := by
  unfold declServices
  have := declServices_idx fi (fileScope f) f.services 0
  simp only [Nat.zero_add] at this
  exact this

/-! ### services: what `hydrateServices` registers and when it succeeds -/

theorem hydrateMethods_ok (fi si : Nat) (fqn : String) (W : Seen) (hW : (W.map (·.key)).Nodup) :
    ∀ (ms : List MethodD) (s : Seen) (j : Nat) (base : List Decl),
      (∀ d ∈ base, d ∈ s) →
      (∃ later, W = later ++ (declMethodsFrom fi si fqn j ms).reverse ++ s) →
      (∀ m ∈ ms, Resolves base m.input .msg ∧ Resolves base m.output .msg) →
      ∃ mio, hydrateMethods fi si fqn s j ms = .ok ((declMethodsFrom fi si fqn j ms).reverse ++ s, mio) := by
  intro ms
  induction ms with
  | nil => intro s j base _ _ _; exact ⟨[], rfl⟩
  | cons m ms ih =>
    intro s j base hbase hsuf hres
    obtain ⟨later, hlater⟩ := hsuf
    simp only [declMethodsFrom, List.reverse_cons, List.append_assoc, List.singleton_append] at hlater
    obtain ⟨d, hd⟩ : ∃ d : Decl, d = ⟨fqn ++ "." ++ m.name, ⟨fi, [6, si, 2, j]⟩, .method⟩ := ⟨_, rfl⟩
    rw [← hd] at hlater
    -- the index after registering the method is still a suffix of W
    have hnd : (((d :: s)).map (·.key)).Nodup := by
      have : (W.map (·.key)).Nodup := hW
      rw [hlater] at this
      simp only [List.map_append] at this
      exact (List.nodup_append.mp (List.nodup_append.mp this).2.1).2.1
    obtain ⟨hin, hout⟩ := hres m (List.mem_cons_self ..)
    have hbase' : ∀ x ∈ base, x ∈ d :: s := fun x hx => List.mem_cons_of_mem _ (hbase x hx)
    obtain ⟨a, ha⟩ := mustSeen_of_resolves (d :: s) hnd m.input .msg (hin.mono hbase')
    obtain ⟨b, hb⟩ := mustSeen_of_resolves (d :: s) hnd m.output .msg (hout.mono hbase')
    obtain ⟨mio, hm⟩ := ih (d :: s) (j+1) base hbase' ⟨later, by rw [hlater]; simp⟩
      (fun x hx => hres x (List.mem_cons_of_mem _ hx))
    refine ⟨(⟨fi, [6, si, 2, j]⟩, a, b) :: mio, ?_⟩
    simp only [hydrateMethods, declMethodsFrom, List.reverse_cons, List.append_assoc, List.singleton_append, ← hd, ha, hb, hm]


theorem hydrateServices_ok (fi : Nat) (scope : String) (W : Seen) (hW : (W.map (·.key)).Nodup) :
    ∀ (svcs : List ServiceD) (s : Seen) (i : Nat) (base : List Decl),
      (∀ d ∈ base, d ∈ s) →
      (∃ later, W = later ++ (declSvcsFrom fi scope i svcs).reverse ++ s) →
      (∀ sv ∈ svcs, ∀ m ∈ sv.methods, Resolves base m.input .msg ∧ Resolves base m.output .msg) →
      ∃ mio, hydrateServices fi scope s i svcs = .ok ((declSvcsFrom fi scope i svcs).reverse ++ s, mio) := by
  intro svcs
  induction svcs with
  | nil => intro s i base _ _ _; exact ⟨[], rfl⟩
  | cons sv svs ih =>
    intro s i base hbase hsuf hres
    obtain ⟨later, hlater⟩ := hsuf
    obtain ⟨d, hd⟩ : ∃ d : Decl, d = ⟨scope ++ "." ++ sv.name, ⟨fi, [6, i]⟩, .service⟩ := ⟨_, rfl⟩
    simp only [declSvcsFrom, declSvcFrom, List.reverse_append, List.reverse_cons, List.append_assoc,
      List.singleton_append, ← hd] at hlater
    have hbase' : ∀ x ∈ base, x ∈ d :: s := fun x hx => List.mem_cons_of_mem _ (hbase x hx)
    obtain ⟨m1, hm1⟩ := hydrateMethods_ok fi i (scope ++ "." ++ sv.name) W hW sv.methods (d :: s) 0 base hbase'
      ⟨later ++ (declSvcsFrom fi scope (i+1) svs).reverse, by rw [hlater]; simp⟩
      (hres sv (List.mem_cons_self ..))
    have hbase'' : ∀ x ∈ base, x ∈ (declMethodsFrom fi i (scope ++ "." ++ sv.name) 0 sv.methods).reverse ++ d :: s :=
      fun x hx => List.mem_append_right _ (hbase' x hx)
    obtain ⟨m2, hm2⟩ := ih ((declMethodsFrom fi i (scope ++ "." ++ sv.name) 0 sv.methods).reverse ++ d :: s) (i+1) base hbase''
      ⟨later, by rw [hlater]; simp⟩ (fun x hx => hres x (List.mem_cons_of_mem _ hx))
    refine ⟨m1 ++ m2, ?_⟩
    simp only [hydrateServices, ← hd, hm1, hm2, declSvcsFrom, declSvcFrom, List.reverse_append, List.reverse_cons,
      List.append_assoc, List.singleton_append]

/-! ### field types -/

/-- a map entry's key / value field resolves -/
structure EntryRes (ds : List Decl) (e : FieldD) : Prop where
  noGroup : e.type ≠ 10
  notRepeated : e.label ≠ 3
  enum : e.type = 14 → Resolves ds e.typeName .enum
  msg : e.type = 11 → Resolves ds e.typeName .msg

/-- a field's (or extension's) type resolves against the declarations `ds` -/
structure FieldRes (w : World) (ds : List Decl) (fd : FieldD) : Prop where
  noGroup : fd.type ≠ 10
  enum : fd.type = 14 → Resolves ds fd.typeName .enum
  msg : fd.type = 11 → ∃ d ∈ ds, d.key = fd.typeName ∧ d.kind = .msg ∧
      (fd.label = 3 → ∃ h n, w.msgAt d.ref = some (h, n) ∧
        (h.mapEntry = true → ∃ k v rest, h.fields = k :: v :: rest ∧ EntryRes ds k ∧ EntryRes ds v))

theorem entryElem_ok (s : Seen) (hs : (s.map (·.key)).Nodup) (owner : Ref) (e : FieldD) (h : EntryRes s e) :
    ∃ el, entryElem s owner e = .ok el := by
  unfold entryElem
  simp only [h.noGroup, h.notRepeated, if_false]
  by_cases h14 : e.type = 14
  · obtain ⟨r, hr⟩ := mustSeen_of_resolves s hs _ _ (h.enum h14)
    simp [h14, hr, Except.map]
  · simp only [h14, if_false]
    by_cases h11 : e.type = 11
    · obtain ⟨r, hr⟩ := mustSeen_of_resolves s hs _ _ (h.msg h11)
      simp [h11, hr, Except.map]
    · simp [h11]

theorem fieldType_ok (w : World) (s : Seen) (hs : (s.map (·.key)).Nodup) (owner : Ref) (fd : FieldD)
    (h : FieldRes w s fd) : ∃ t, fieldType w s owner fd = .ok t := by
  unfold fieldType
  simp only [h.noGroup, if_false]
  by_cases h3 : fd.label = 3
  · simp only [h3, if_true]
    by_cases h14 : fd.type = 14
    · obtain ⟨r, hr⟩ := mustSeen_of_resolves s hs _ _ (h.enum h14)
      simp [h14, hr, Except.map]
    · simp only [h14, if_false]
      by_cases h11 : fd.type = 11
      · obtain ⟨d, hd, hk, hkind, hrep⟩ := h.msg h11
        obtain ⟨hh, n, hat, hmap⟩ := hrep h3
        have hm : mustSeen s fd.typeName .msg = .ok d.ref := by
          rw [← hk, ← hkind]; exact mustSeen_ok s hs d hd
        simp only [h11, if_true, hm, hat]
        by_cases hme : hh.mapEntry = true
        · obtain ⟨k, v, rest, hf, hk', hv'⟩ := hmap hme
          obtain ⟨ke, hke⟩ := entryElem_ok s hs owner k hk'
          obtain ⟨ve, hve⟩ := entryElem_ok s hs owner v hv'
          simp [hme, hf, hke, hve]
        · simp [hme]
      · simp [h11]
  · simp only [h3, if_false]
    by_cases h14 : fd.type = 14
    · obtain ⟨r, hr⟩ := mustSeen_of_resolves s hs _ _ (h.enum h14)
      simp [h14, hr, Except.map]
    · simp only [h14, if_false]
      by_cases h11 : fd.type = 11
      · obtain ⟨d, hd, hk, hkind, _⟩ := h.msg h11
        have hm : mustSeen s fd.typeName .msg = .ok d.ref := by
          rw [← hk, ← hkind]; exact mustSeen_ok s hs d hd
        simp [h11, hm, Except.map]
      · simp [h11]

theorem fieldTypes_ok (w : World) (s : Seen) (hs : (s.map (·.key)).Nodup) (fi : Nat) (p : List Nat) (tag : Nat) :
    ∀ (fs : List FieldD) (i : Nat), (∀ fd ∈ fs, FieldRes w s fd) → ∃ ts, fieldTypes w s fi p tag i fs = .ok ts := by
  intro fs
  induction fs with
  | nil => intro i _; exact ⟨[], rfl⟩
  | cons fd fs ih =>
    intro i h
    obtain ⟨t, ht⟩ := fieldType_ok w s hs ⟨fi, p ++ [tag, i]⟩ fd (h fd (List.mem_cons_self ..))
    obtain ⟨ts, hts⟩ := ih (i+1) (fun x hx => h x (List.mem_cons_of_mem _ hx))
    exact ⟨(⟨fi, p ++ [tag, i]⟩, t) :: ts, by simp [fieldTypes, ht, hts]⟩

/-- a property of every field of every message of a forest -/
def AllFields (P : FieldD → Prop) : Msgs → Prop
  | .nil => True
  | .cons h nested rest => (∀ fd ∈ h.fields, P fd) ∧ AllFields P nested ∧ AllFields P rest

theorem msgFieldTypes_ok (w : World) (s : Seen) (hs : (s.map (·.key)).Nodup) (fi : Nat) :
    ∀ (ms : Msgs) (p : List Nat) (tag i : Nat), AllFields (FieldRes w s) ms → ∃ ts, msgFieldTypes w s fi p tag i ms = .ok ts := by
  intro ms
  induction ms with
  | nil => intro p tag i _; exact ⟨[], rfl⟩
  | cons h nested rest ih1 ih2 =>
    intro p tag i hall
    obtain ⟨ha, hb, hc⟩ := hall
    obtain ⟨t1, ht1⟩ := fieldTypes_ok w s hs fi (p ++ [tag, i]) 2 h.fields 0 ha
    obtain ⟨t2, ht2⟩ := ih1 (p ++ [tag, i]) 3 0 hb
    obtain ⟨t3, ht3⟩ := ih2 p tag (i+1) hc
    exact ⟨t1 ++ t2 ++ t3, by simp [msgFieldTypes, ht1, ht2, ht3]⟩

theorem hydrateExts_ok (w : World) (s : Seen) (hs : (s.map (·.key)).Nodup) :
    ∀ (xs : List (Ref × FieldD)), (∀ x ∈ xs, FieldRes w s x.2 ∧ Resolves s x.2.extendee .msg) →
      ∃ r, hydrateExts w s xs = .ok r := by
  intro xs
  induction xs with
  | nil => intro _; exact ⟨([], []), rfl⟩
  | cons x xs ih =>
    intro h
    obtain ⟨r, fd⟩ := x
    obtain ⟨h1, h2⟩ := h (r, fd) (List.mem_cons_self ..)
    obtain ⟨t, ht⟩ := fieldType_ok w s hs r fd h1
    obtain ⟨m, hm⟩ := mustSeen_of_resolves s hs _ _ h2
    obtain ⟨⟨ts, ms⟩, hrest⟩ := ih (fun y hy => h y (List.mem_cons_of_mem _ hy))
    exact ⟨((r, t) :: ts, (r, m) :: ms), by simp only [hydrateExts, ht, hm, hrest]⟩

end Pgs.AST
