import PgsVerif.Model.Closure
/-! The visited-set traversal computes exactly reachability (helper lemmas for C05). -/
namespace Pgs.AST

section
variable {α : Type} [DecidableEq α] (adj : α → List α)

inductive Reach : α → α → Prop
  | single {a b} : b ∈ adj a → Reach a b
  | tail {a b c} : Reach a b → c ∈ adj b → Reach a c

/-- unseen count within a universe -/
def unseen (U seen : List α) : Nat := (U.filter (fun x => decide (x ∉ seen))).length

theorem dfs_mono (f : Nat) (m : α) (seen : List α) : ∀ x ∈ seen, x ∈ dfs adj f m seen := by
  induction f generalizing m seen with
  | zero => intro x hx; simpa [dfs] using hx
  | succ f ih =>
    intro x hx
    simp only [dfs]
    generalize adj m = ds
    induction ds generalizing seen with
    | nil => simpa using hx
    | cons d ds ihd =>
      simp only [List.foldl_cons]
      apply ihd
      split
      · exact hx
      · exact ih d (d :: seen) x (List.mem_cons_of_mem _ hx)

/-- soundness: everything added is reachable from m -/
theorem dfs_sound (f : Nat) (m : α) (seen : List α) :
    ∀ x ∈ dfs adj f m seen, x ∈ seen ∨ Reach adj m x := by
  induction f generalizing m seen with
  | zero => intro x hx; left; simpa [dfs] using hx
  | succ f ih =>
    intro x hx
    simp only [dfs] at hx
    have key : ∀ (ds : List α) (seen' : List α), (∀ d ∈ ds, d ∈ adj m) →
        (∀ y ∈ seen', y ∈ seen ∨ Reach adj m y) →
        ∀ y ∈ ds.foldl (fun seen d => if d ∈ seen then seen else dfs adj f d (d :: seen)) seen',
          y ∈ seen ∨ Reach adj m y := by
      intro ds
      induction ds with
      | nil => intro seen' _ h y hy; exact h y (by simpa using hy)
      | cons d ds ihd =>
        intro seen' hsub h y hy
        simp only [List.foldl_cons] at hy
        refine ihd _ (fun d' hd' => hsub d' (List.mem_cons_of_mem _ hd')) ?_ y hy
        intro z hz
        split at hz
        · exact h z hz
        · rcases ih d (d :: seen') z hz with h1 | h1
          · rcases List.mem_cons.mp h1 with rfl | h2
            · right; exact Reach.single (hsub _ (List.mem_cons_self ..))
            · exact h z h2
          · right
            have hd : d ∈ adj m := hsub _ (List.mem_cons_self ..)
            -- Reach m d then Reach d z
            clear hz hy
            induction h1 with
            | single hb => exact Reach.tail (Reach.single hd) hb
            | tail _ hc ih' => exact Reach.tail ih' hc
    exact key (adj m) seen (fun _ h => h) (fun y hy => Or.inl hy) x hx


theorem unseen_mono (U s t : List α) (h : ∀ x ∈ s, x ∈ t) : unseen U t ≤ unseen U s := by
  unfold unseen
  induction U with
  | nil => simp
  | cons u U ih =>
    simp only [List.filter_cons]
    by_cases hs : u ∈ s
    · have ht : u ∈ t := h u hs
      simp [hs, ht]; simpa using ih
    · by_cases ht : u ∈ t
      · simp [hs, ht]; have := ih; simp at this; omega
      · simp [hs, ht]; simpa using ih

theorem unseen_cons_lt (U s : List α) (d : α) (hd : d ∈ U) (hn : d ∉ s) :
    unseen U (d :: s) < unseen U s := by
  induction U with
  | nil => simp at hd
  | cons u U ih =>
    by_cases hud : u = d
    · subst hud
      have := unseen_mono U s (u :: s) (fun x hx => List.mem_cons_of_mem _ hx)
      unfold unseen at this ⊢
      simp only [List.filter_cons]
      simp [hn]; simp at this; omega
    · have hd' : d ∈ U := by
        rcases List.mem_cons.mp hd with h | h
        · exact absurd h.symm hud
        · exact h
      have ih' := ih hd'
      unfold unseen at ih' ⊢
      simp only [List.filter_cons]
      by_cases hs : u ∈ s
      · simp [hs]; simpa using ih'
      · simp [hs, hud]; simpa using ih'

/-- the completeness invariant -/
theorem dfs_complete (U : List α) (hU : ∀ x ∈ U, ∀ y ∈ adj x, y ∈ U) :
    ∀ (f : Nat) (m : α) (seen : List α), m ∈ U → (∀ x ∈ seen, x ∈ U) → unseen U seen ≤ f →
      (∀ y ∈ adj m, y ∈ dfs adj f m seen) ∧
      (∀ x ∈ dfs adj f m seen, x ∉ seen → ∀ y ∈ adj x, y ∈ dfs adj f m seen) ∧
      (∀ x ∈ dfs adj f m seen, x ∈ U) := by
  intro f
  induction f with
  | zero =>
    intro m seen hm hs hf
    have hall : ∀ x ∈ U, x ∈ seen := by
      intro x hx
      unfold unseen at hf
      have : (U.filter (fun x => decide (x ∉ seen))) = [] := by
        apply List.eq_nil_of_length_eq_zero; omega
      have h2 := List.filter_eq_nil_iff.mp this x hx
      simpa using h2
    simp only [dfs]
    exact ⟨fun y hy => hall y (hU m hm y hy), fun x hx hn => absurd hx hn, hs⟩
  | succ f ih =>
    intro m seen hm hs hf
    simp only [dfs]
    -- loop lemma
    have loop : ∀ (ds : List α) (seen' : List α), (∀ d ∈ ds, d ∈ U) → (∀ x ∈ seen', x ∈ U) →
        unseen U seen' ≤ f + 1 →
        let S := ds.foldl (fun seen d => if d ∈ seen then seen else dfs adj f d (d :: seen)) seen'
        (∀ x ∈ seen', x ∈ S) ∧ (∀ d ∈ ds, d ∈ S) ∧
        (∀ x ∈ S, x ∉ seen' → ∀ y ∈ adj x, y ∈ S) ∧ (∀ x ∈ S, x ∈ U) := by
      intro ds
      induction ds with
      | nil => intro seen' _ hs' _; simp; exact ⟨fun x hx hn => absurd hx hn, hs'⟩
      | cons d ds ihd =>
        intro seen' hds hs' hf'
        simp only [List.foldl_cons]
        have hdU : d ∈ U := hds d (List.mem_cons_self ..)
        by_cases hd : d ∈ seen'
        · simp only [hd, if_true]
          have := ihd seen' (fun d' h => hds d' (List.mem_cons_of_mem _ h)) hs' hf'
          obtain ⟨a, b, c, e⟩ := this
          refine ⟨a, ?_, c, e⟩
          intro d' hd'
          rcases List.mem_cons.mp hd' with rfl | h
          · exact a _ hd
          · exact b _ h
        · simp only [hd, if_false]
          have hcons : ∀ x ∈ d :: seen', x ∈ U := by
            intro x hx; rcases List.mem_cons.mp hx with rfl | h
            · exact hdU
            · exact hs' x h
          have hlt := unseen_cons_lt U seen' d hdU hd
          obtain ⟨i1, i2, i3⟩ := ih d (d :: seen') hdU hcons (by omega)
          have hmono := dfs_mono adj f d (d :: seen')
          have hf1 : unseen U (dfs adj f d (d :: seen')) ≤ f + 1 := by
            have := unseen_mono U (d :: seen') (dfs adj f d (d :: seen')) hmono
            omega
          obtain ⟨a, b, c, e⟩ := ihd (dfs adj f d (d :: seen'))
            (fun d' h => hds d' (List.mem_cons_of_mem _ h)) i3 hf1
          refine ⟨fun x hx => a x (hmono x (List.mem_cons_of_mem _ hx)), ?_, ?_, e⟩
          · intro d' hd'
            rcases List.mem_cons.mp hd' with rfl | h
            · exact a _ (hmono _ (List.mem_cons_self ..))
            · exact b _ h
          · intro x hx hn y hy
            by_cases hx1 : x ∈ dfs adj f d (d :: seen')
            · by_cases hxd : x = d
              · subst hxd; exact a _ (i1 y hy)
              · have : x ∉ d :: seen' := by
                  intro h; rcases List.mem_cons.mp h with h | h
                  · exact hxd h
                  · exact hn h
                exact a _ (i2 x hx1 this y hy)
            · exact c x hx hx1 y hy
    obtain ⟨a, b, c, e⟩ := loop (adj m) seen (fun d hd => hU m hm d hd) hs hf
    exact ⟨b, c, e⟩

/-- top level: with enough fuel the result from the empty set is exactly the reachable set -/
theorem dfs_exact (U : List α) (hU : ∀ x ∈ U, ∀ y ∈ adj x, y ∈ U) (m : α) (hm : m ∈ U)
    (f : Nat) (hf : U.length ≤ f) (x : α) :
    x ∈ dfs adj f m [] ↔ Reach adj m x := by
  constructor
  · intro h
    rcases dfs_sound adj f m [] x h with h | h
    · simp at h
    · exact h
  · intro h
    have hf' : unseen U [] ≤ f := by
      unfold unseen; exact Nat.le_trans (List.length_filter_le _ _) hf
    obtain ⟨a, b, _⟩ := dfs_complete adj U hU f m [] hm (by simp) hf'
    induction h with
    | single hb => exact a _ hb
    | tail _ hc ih => exact b _ ih (by simp) _ hc


end
end Pgs.AST
