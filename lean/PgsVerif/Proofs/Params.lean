import PgsVerif.Model.Params
import PgsVerif.Proofs.Bytes
/-! Helper lemmas for C19. -/
namespace Pgs.C19
open Pgs

/-! ### the order used by `sort.Strings` -/
theorem leB_refl (a : Bytes) : leB a a = true := by
  induction a with
  | nil => rfl
  | cons x xs ih => simp [leB, ih]

theorem leB_total (a b : Bytes) : (leB a b || leB b a) = true := by
  induction a generalizing b with
  | nil => simp [leB]
  | cons x xs ih =>
    cases b with
    | nil => simp [leB]
    | cons y ys =>
      simp only [leB]
      by_cases h1 : x < y
      · simp [h1]
      · by_cases h2 : y < x
        · simp [h1, h2]
        · simp only [h1, h2, if_false]; exact ih ys

theorem leB_trans (a b c : Bytes) (h1 : leB a b = true) (h2 : leB b c = true) : leB a c = true := by
  induction a generalizing b c with
  | nil => simp [leB]
  | cons x xs ih =>
    cases b with
    | nil => simp [leB] at h1
    | cons y ys =>
      cases c with
      | nil => simp [leB] at h2
      | cons z zs =>
        simp only [leB] at h1 h2 ⊢
        by_cases hxy : x < y
        · by_cases hyz : y < z
          · have : x < z := Nat.lt_trans hxy hyz
            simp [this]
          · by_cases hzy : z < y
            · simp [hyz, hzy] at h2
            · have : y = z := by omega
              subst this; simp [hxy]
        · by_cases hyx : y < x
          · simp [hxy, hyx] at h1
          · have : x = y := by omega
            subst this
            simp only [hxy, if_false] at h1
            by_cases hxz : x < z
            · simp [hxz]
            · by_cases hzx : z < x
              · simp [hxz, hzx] at h2
              · simp only [hxz, hzx, if_false] at h2 ⊢
                exact ih ys zs h1 h2

theorem leB_antisymm (a b : Bytes) (h1 : leB a b = true) (h2 : leB b a = true) : a = b := by
  induction a generalizing b with
  | nil => cases b with
    | nil => rfl
    | cons y ys => simp [leB] at h2
  | cons x xs ih =>
    cases b with
    | nil => simp [leB] at h1
    | cons y ys =>
      simp only [leB] at h1 h2
      by_cases hxy : x < y
      · have : ¬ y < x := by omega
        simp [hxy, this] at h2
      · by_cases hyx : y < x
        · simp [hxy, hyx] at h1
        · have : x = y := by omega
          subst this
          simp only [hxy, if_false] at h1 h2
          rw [ih ys h1 h2]

/-! ### maps -/
theorem get_set (m : Map) (k v k' : Bytes) :
    get (set m k v) k' = if k = k' then some v else get m k' := by
  induction m with
  | nil =>
    by_cases h : k = k'
    · simp [set, get, h]
    · simp [set, get, h]
  | cons a rest ih =>
    obtain ⟨ak, av⟩ := a
    unfold set
    by_cases h1 : ak = k
    · subst h1
      by_cases h2 : ak = k'
      · simp [get, h2]
      · simp [get, h2]
    · simp only [h1, if_false]
      by_cases h2 : ak = k'
      · subst h2
        have : ¬ k = ak := fun e => h1 e.symm
        simp [get, this]
      · have e1 : get ((ak, av) :: set rest k v) k' = get (set rest k v) k' := by simp [get, h2]
        have e2 : get ((ak, av) :: rest) k' = get rest k' := by simp [get, h2]
        rw [e1, e2, ih]

/-- value carried by the last item with key `k` -/
theorem lastFor_cons (a : KV) (l : List KV) (k : Bytes) :
    lastFor (a :: l) k = (lastFor l k).or (if a.1 = k then some a.2 else none) := by
  unfold lastFor get
  simp only [List.reverse_cons, List.find?_append]
  cases h : List.find? (fun x => x.1 == k) l.reverse with
  | some x => simp
  | none =>
    by_cases ha : a.1 = k
    · simp [ha]
    · simp [ha]

theorem get_foldl_set (l : List KV) (m : Map) (k : Bytes) :
    get (l.foldl (fun m kv => set m kv.1 kv.2) m) k = (lastFor l k).or (get m k) := by
  induction l generalizing m with
  | nil => simp [lastFor, get]
  | cons a l ih =>
    simp only [List.foldl_cons]
    rw [ih, lastFor_cons, get_set]
    cases lastFor l k with
    | some x => simp
    | none => by_cases ha : a.1 = k <;> simp [ha]

theorem get_ofList (l : List KV) (k : Bytes) : get (ofList l) k = lastFor l k := by
  unfold ofList; rw [get_foldl_set]; cases lastFor l k <;> simp [get]

theorem lastFor_append (l1 l2 : List KV) (k : Bytes) :
    lastFor (l1 ++ l2) k = (lastFor l2 k).or (lastFor l1 k) := by
  unfold lastFor get
  simp only [List.reverse_append, List.find?_append]
  cases List.find? (fun x => x.1 == k) l2.reverse <;> simp

/-- entries of `set` come from the old map or are the new pair; keys stay distinct -/
theorem mem_set (m : Map) (k v : Bytes) (x : KV) (hx : x ∈ set m k v) : x ∈ m ∨ x = (k, v) := by
  induction m with
  | nil => simp [set] at hx; exact Or.inr hx
  | cons a rest ih =>
    obtain ⟨ak, av⟩ := a
    unfold set at hx
    by_cases h1 : ak = k
    · simp only [h1, if_true] at hx
      rcases List.mem_cons.mp hx with h | h
      · exact Or.inr h
      · exact Or.inl (List.mem_cons_of_mem _ h)
    · simp only [h1, if_false] at hx
      rcases List.mem_cons.mp hx with h | h
      · exact Or.inl (h ▸ List.mem_cons_self ..)
      · rcases ih h with h | h
        · exact Or.inl (List.mem_cons_of_mem _ h)
        · exact Or.inr h

theorem keys_set (m : Map) (k v : Bytes) (x : Bytes) (hx : x ∈ (set m k v).map (·.1)) :
    x ∈ m.map (·.1) ∨ x = k := by
  obtain ⟨y, hy, rfl⟩ := List.mem_map.mp hx
  rcases mem_set m k v y hy with h | h
  · exact Or.inl (List.mem_map_of_mem h)
  · exact Or.inr (by rw [h])

theorem nodup_set (m : Map) (k v : Bytes) (h : (m.map (·.1)).Nodup) : ((set m k v).map (·.1)).Nodup := by
  induction m with
  | nil => simp [set]
  | cons a rest ih =>
    obtain ⟨ak, av⟩ := a
    simp only [List.map_cons, List.nodup_cons] at h
    unfold set
    by_cases h1 : ak = k
    · subst h1; simp only [if_true, List.map_cons, List.nodup_cons]; exact h
    · simp only [h1, if_false, List.map_cons, List.nodup_cons]
      refine ⟨?_, ih h.2⟩
      intro hm
      rcases keys_set rest k v ak hm with h' | h'
      · exact h.1 h'
      · exact h1 h'

theorem foldl_set_props (l : List KV) (m : Map) (hn : (m.map (·.1)).Nodup) :
    ((l.foldl (fun m kv => set m kv.1 kv.2) m).map (·.1)).Nodup ∧
    (∀ x ∈ l.foldl (fun m kv => set m kv.1 kv.2) m, x ∈ m ∨ x ∈ l) ∧
    (l ≠ [] ∨ m ≠ [] → l.foldl (fun m kv => set m kv.1 kv.2) m ≠ []) := by
  induction l generalizing m with
  | nil => exact ⟨hn, fun x hx => Or.inl hx, fun h => by simpa using h⟩
  | cons a l ih =>
    simp only [List.foldl_cons]
    obtain ⟨h1, h2, h3⟩ := ih (set m a.1 a.2) (nodup_set m a.1 a.2 hn)
    refine ⟨h1, ?_, ?_⟩
    · intro x hx
      rcases h2 x hx with h | h
      · rcases mem_set m a.1 a.2 x h with h | h
        · exact Or.inl h
        · exact Or.inr (by rw [h]; exact List.mem_cons_self ..)
      · exact Or.inr (List.mem_cons_of_mem _ h)
    · intro _
      apply h3
      right
      cases m with
      | nil => simp [set]
      | cons b rest => obtain ⟨bk, bv⟩ := b; unfold set; split <;> simp

/-- with distinct keys, `get` is membership -/
theorem get_eq_some_iff (m : Map) (hn : (m.map (·.1)).Nodup) (k v : Bytes) :
    get m k = some v ↔ (k, v) ∈ m := by
  induction m with
  | nil => simp [get]
  | cons a rest ih =>
    obtain ⟨ak, av⟩ := a
    simp only [List.map_cons, List.nodup_cons] at hn
    by_cases h1 : ak = k
    · subst h1
      constructor
      · intro h; simp [get] at h; subst h; exact List.mem_cons_self ..
      · intro h
        rcases List.mem_cons.mp h with h | h
        · cases h; simp [get]
        · exact absurd (List.mem_map_of_mem (f := (·.1)) h) hn.1
    · have e : get ((ak, av) :: rest) k = get rest k := by simp [get, h1]
      rw [e, ih hn.2]
      constructor
      · exact fun h => List.mem_cons_of_mem _ h
      · intro h
        rcases List.mem_cons.mp h with h | h
        · cases h; exact absurd rfl h1
        · exact h

theorem get_perm (m1 m2 : Map) (hp : m1.Perm m2) (hn : (m1.map (·.1)).Nodup) (k : Bytes) : get m1 k = get m2 k := by
  have hn2 : (m2.map (·.1)).Nodup := (hp.map _).nodup_iff.mp hn
  cases h1 : get m1 k with
  | some v =>
    have := (get_eq_some_iff m1 hn k v).mp h1
    exact ((get_eq_some_iff m2 hn2 k v).mpr (hp.mem_iff.mp this)).symm
  | none =>
    cases h2 : get m2 k with
    | none => rfl
    | some v =>
      have := (get_eq_some_iff m2 hn2 k v).mp h2
      have := (get_eq_some_iff m1 hn k v).mpr (hp.mem_iff.mpr this)
      rw [h1] at this; cases this

theorem lastFor_eq_get_of_nodup (l : List KV) (hn : (l.map (·.1)).Nodup) (k : Bytes) : lastFor l k = get l k := by
  unfold lastFor
  exact get_perm l.reverse l (List.reverse_perm l) (by
    rw [List.map_reverse]
    exact (List.reverse_perm _).nodup_iff.mpr hn) k

/-! ### items -/
theorem takeWhile_of_not_mem (a : Bytes) (c : Nat) (rest : Bytes) (h : c ∉ a) :
    (a ++ c :: rest).takeWhile (· != c) = a ∧ (a ++ c :: rest).dropWhile (· != c) = c :: rest := by
  induction a with
  | nil => simp [List.takeWhile, List.dropWhile]
  | cons x xs ih =>
    have hx : x ≠ c := fun e => h (e ▸ List.mem_cons_self ..)
    have := ih (fun m => h (List.mem_cons_of_mem _ m))
    simp [List.takeWhile, List.dropWhile, hx, this]

theorem parseItem_renderItem (kv : KV) (hk : equals ∉ kv.1) : parseItem (renderItem kv) = kv := by
  obtain ⟨k, v⟩ := kv
  by_cases hv : v = []
  · subst hv
    have hk' : equals ∉ k := hk
    have : k.contains equals = false := by simpa using hk'
    show parseItem k = (k, [])
    unfold parseItem
    rw [if_neg (by rw [this]; exact Bool.false_ne_true)]
  · unfold renderItem
    simp only [hv, if_false]
    have hc : (k ++ equals :: v).contains equals = true := by simp
    obtain ⟨h1, h2⟩ := takeWhile_of_not_mem k equals v hk
    simp [parseItem, hc, h1, h2]

theorem renderItem_no_comma (kv : KV) (hk : comma ∉ kv.1) (hv : comma ∉ kv.2) : comma ∉ renderItem kv := by
  obtain ⟨k, v⟩ := kv
  unfold renderItem
  split
  · exact hk
  · intro h
    rcases List.mem_append.mp h with h | h
    · exact hk h
    · rcases List.mem_cons.mp h with h | h
      · exact absurd h (by decide)
      · exact hv h

theorem takeWhile_sub (p : Nat → Bool) (l : Bytes) (x : Nat) (h : x ∈ l.takeWhile p) : x ∈ l :=
  (List.takeWhile_sublist p).subset h
theorem dropWhile_sub (p : Nat → Bool) (l : Bytes) (x : Nat) (h : x ∈ l.dropWhile p) : x ∈ l :=
  (List.dropWhile_sublist p).subset h

/-- what `parseItem` yields never contains a comma if the item does not, and the key no '=' -/
theorem parseItem_dom (p : Bytes) (hc : comma ∉ p) :
    comma ∉ (parseItem p).1 ∧ equals ∉ (parseItem p).1 ∧ comma ∉ (parseItem p).2 := by
  unfold parseItem
  split
  · refine ⟨fun h => hc (takeWhile_sub _ _ _ h), ?_, ?_⟩
    · intro h
      have hall := List.all_takeWhile (p := (· != equals)) (l := p)
      have := List.all_eq_true.mp hall equals h
      simp at this
    · intro h
      exact hc (dropWhile_sub _ _ _ ((List.drop_sublist 1 _).subset h))
  · rename_i h
    refine ⟨hc, ?_, by simp⟩
    simpa using h

theorem splitOn_append_general (sep : Nat) (a b : Bytes) :
    splitOn sep (a ++ sep :: b) = splitOn sep a ++ splitOn sep b := by
  induction a with
  | nil => simp [splitOn]
  | cons c cs ih =>
    by_cases hc : c = sep
    · subst hc; simp only [List.cons_append, splitOn_cons_sep, ih]
    · obtain ⟨s, ss, h1, h2⟩ := splitOn_cons_ne sep c cs hc
      obtain ⟨s', ss', h1', h2'⟩ := splitOn_cons_ne sep c (cs ++ sep :: b) hc
      simp only [List.cons_append]
      rw [h2', h2]
      rw [ih, h1] at h1'
      simp only [List.cons_append, List.cons.injEq] at h1'
      obtain ⟨rfl, rfl⟩ := h1'
      rfl

/-! ### decimal digits -/
theorem digits_spec (fuel : Nat) : ∀ (n : Nat) (acc : Bytes), n < fuel →
    ∃ ds, digitsAux fuel n acc = ds ++ acc ∧ ds ≠ [] ∧
      ∀ (rest : Bytes) (a : Nat), parseNatAux (ds ++ rest) a = parseNatAux rest (a * 10 ^ ds.length + n) := by
  induction fuel with
  | zero => intro n acc h; omega
  | succ fuel ih =>
    intro n acc hn
    unfold digitsAux
    by_cases h10 : n < 10
    · simp only [h10, if_true]
      refine ⟨[48 + n], rfl, by simp, ?_⟩
      intro rest a
      have hd : isDigit (48 + n) = true := by simp [isDigit]; omega
      simp [parseNatAux, hd]
    · simp only [h10, if_false]
      have hlt : n / 10 < fuel := by omega
      obtain ⟨ds, h1, h2, h3⟩ := ih (n / 10) ((48 + n % 10) :: acc) hlt
      refine ⟨ds ++ [48 + n % 10], by rw [h1]; simp, by simp, ?_⟩
      intro rest a
      have hd : isDigit (48 + n % 10) = true := by simp [isDigit]; omega
      have := h3 ((48 + n % 10) :: rest) a
      simp only [List.append_assoc, List.singleton_append]
      rw [this]
      simp only [parseNatAux, hd, if_true, List.length_append, List.length_singleton]
      congr 1
      have hm := Nat.div_add_mod n 10
      rw [Nat.pow_succ]
      have : 48 + n % 10 - 48 = n % 10 := by omega
      rw [this]
      calc (a * 10 ^ ds.length + n / 10) * 10 + n % 10
          = a * 10 ^ ds.length * 10 + (10 * (n / 10) + n % 10) := by
            rw [Nat.add_mul, Nat.mul_comm (n/10) 10, Nat.add_assoc]
        _ = a * (10 ^ ds.length * 10) + n := by rw [hm, Nat.mul_assoc]

theorem parseNat_formatNat (n : Nat) : parseNatAux (formatNat n) 0 = some n ∧ formatNat n ≠ [] ∧
    (formatNat n).head? ≠ some minus ∧ (formatNat n).head? ≠ some plus := by
  obtain ⟨ds, h1, h2, h3⟩ := digits_spec (n + 1) n [] (by omega)
  unfold formatNat
  rw [h1]
  have := h3 [] 0
  simp only [List.append_nil] at this ⊢
  refine ⟨by rw [this]; simp [parseNatAux], h2, ?_, ?_⟩
  all_goals
    cases ds with
    | nil => exact absurd rfl h2
    | cons d rest =>
      intro hh
      simp only [List.head?_cons, Option.some.injEq] at hh
      have h0 := h3 [] 0
      simp only [List.cons_append, List.append_nil, parseNatAux] at h0
      subst hh
      simp [isDigit, minus, plus] at h0

end Pgs.C19
