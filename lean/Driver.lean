import PgsVerif.Model.Engines
open Lean Pgs

def handle (line : String) : String :=
  match Json.parse line with
  | .error e => (Json.mkObj [("error", s!"parse: {e}")]).compress
  | .ok j =>
    match j.getObjValAs? String "e" with
    | .error e => (Json.mkObj [("error", s!"no engine: {e}")]).compress
    | .ok name =>
      match engines.lookup name with
      | none => (Json.mkObj [("error", s!"unknown engine {name}")]).compress
      | some eng =>
        let i := (j.getObjVal? "in").toOption.getD Json.null
        let o := (j.getObjVal? "obs").toOption.getD Json.null
        match eng i o with
        | .error e => (Json.mkObj [("error", s!"decode: {e}")]).compress
        | .ok v => v.toJson.compress

partial def loop (hin hout : IO.FS.Stream) : IO Unit := do
  let line ← hin.getLine
  if line.isEmpty then return ()
  let t := line.trimAscii.toString
  if !t.isEmpty then hout.putStrLn (handle t)
  loop hin hout

def main : IO Unit := do
  let hin ← IO.getStdin
  let hout ← IO.getStdout
  loop hin hout
  hout.flush
