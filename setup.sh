#!/bin/bash
# Build the framework offline from files on disk: Lean library + driver, Go harness against /repo.
set -e
cd "$(dirname "$0")"
export GOFLAGS=-mod=mod GOPROXY=off GOSUMDB=off GOTOOLCHAIN=local
# first the harness and the translator (no Lean needed): the generated Lean files must say what /repo says
# NOW before anything that imports them is built
python3 - <<'P'
import sys, os
sys.argv = ["check"]
sys.path.insert(0, "tools")
import importlib.machinery, importlib.util
loader = importlib.machinery.SourceFileLoader("check_mod", "./check")
spec = importlib.util.spec_from_loader("check_mod", loader)
m = importlib.util.module_from_spec(spec); loader.exec_module(m)
b, err = m.build_harness()
if b is None:
    print(err); sys.exit(1)
ok, out = m.run_factgen(b)
print("harness:", b, "factgen:", ok, out[-300:])
P
# the whole library (all theorems); if a tie theorem does not build on this tree the driver is still needed
(cd lean && (lake build PgsVerif driver || lake build driver))
echo setup done
